// C19 correspondence harness: ParsePacketV4 / ParsePacketV6 on arbitrary IP-layer byte strings
// (every length 0..80 and beyond, every protocol number, port pairs around every common port),
// each together with a reverse-direction twin packet and EPHash.Reverse() of the extracted key;
// plus the exhaustive true-set of isCommonPort over 256 protocols x 65536 ports (once per run).
package main

import (
	"encoding/hex"
	"encoding/json"
	"fmt"
	"strconv"
	"strings"

	"verifharness/vhlib"

	"github.com/els0r/goProbe/v4/pkg/capture"
	"github.com/els0r/goProbe/v4/pkg/capture/capturetypes"
	slimcap "github.com/fako1024/slimcap/capture"
)

type input struct {
	Kind string `json:"kind"` // table | parse | rev
	V6   bool   `json:"v6,omitempty"`
	P    string `json:"p,omitempty"` // hex: the IP layer handed to the parser
	Q    string `json:"q,omitempty"` // hex: reverse-direction packet of the same conversation
	H    string `json:"h,omitempty"` // hex: hash for kind rev
	Gen  string `json:"gen,omitempty"`
}

type obsT struct {
	Class string `json:"class"` // ok frag trunc panic errno:N
	Hash  string `json:"hash,omitempty"`
	Aux   int    `json:"aux"`
	hash  []byte
}

// ---------------------------------------------------------------- packet construction

type lay struct {
	hdr, protoPos, sip, alen int
	icmp                     byte
}

func layout(v6 bool) lay {
	if v6 {
		return lay{40, 6, 8, 16, 58}
	}
	return lay{20, 9, 12, 4, 1}
}

func hasPorts(p byte) bool { return p == 6 || p == 17 }

var commons = []int{53, 80, 443, 445, 8080}

// ports whose bytes are close to a table entry in one coordinate only, and range ends
var oddPorts = []int{0, 1, 52, 54, 79, 81, 442, 444, 446, 8079, 8081, 309, 187, 189, 256 + 53, 512 + 187, 36895, 13568, 20480,
	47873, 48385, 8191, 8192, 8336, 7936, 144, 31, 65535, 32768, 32767, 1024, 49152, 60999}

func fill(r *vhlib.Rand, n int) []byte {
	b := make([]byte, n)
	for i := range b {
		b[i] = byte(r.Intn(256))
	}
	return b
}

func put(b []byte, i int, v byte) {
	if i < len(b) {
		b[i] = v
	}
}

func putPort(b []byte, i int, port int) {
	put(b, i, byte(port>>8))
	put(b, i+1, byte(port))
}

// mkPacket builds an IP layer of n bytes with the given protocol, fragment bytes (v4) and ports
func mkPacket(r *vhlib.Rand, v6 bool, n int, proto byte, b6, b7 byte, sport, dport int) []byte {
	L := layout(v6)
	b := fill(r, n)
	if v6 {
		put(b, 0, 0x60|byte(r.Intn(16)))
	} else {
		put(b, 0, 0x45)
		put(b, 6, b6)
		put(b, 7, b7)
	}
	put(b, L.protoPos, proto)
	if sport >= 0 {
		putPort(b, L.hdr, sport)
	}
	if dport >= 0 {
		putPort(b, L.hdr+2, dport)
	}
	return b
}

// twin: same length / protocol / fragment field, addresses swapped, ports swapped (when the four
// port bytes exist); with noise, every byte that is not part of the key is re-drawn
func twin(r *vhlib.Rand, v6 bool, p []byte, noise bool) []byte {
	L := layout(v6)
	q := append([]byte(nil), p...)
	n := len(p)
	if n < L.hdr {
		return q
	}
	proto := p[L.protoPos]
	keep := make([]bool, n)
	keep[0] = true
	keep[L.protoPos] = true
	if !v6 {
		keep[6], keep[7] = true, true
	}
	for i := 0; i < 2*L.alen; i++ {
		keep[L.sip+i] = true
	}
	copy(q[L.sip:L.sip+L.alen], p[L.sip+L.alen:L.sip+2*L.alen])
	copy(q[L.sip+L.alen:L.sip+2*L.alen], p[L.sip:L.sip+L.alen])
	if n >= L.hdr+4 && (hasPorts(proto) || r.Bool()) {
		copy(q[L.hdr:L.hdr+2], p[L.hdr+2:L.hdr+4])
		copy(q[L.hdr+2:L.hdr+4], p[L.hdr:L.hdr+2])
		if hasPorts(proto) {
			for i := 0; i < 4; i++ {
				keep[L.hdr+i] = true
			}
		}
	}
	if noise {
		for i := range q {
			if !keep[i] {
				q[i] = byte(r.Intn(256))
			}
		}
	}
	return q
}

func parseCase(r *vhlib.Rand, v6 bool, p []byte, gen string) input {
	q := twin(r, v6, p, r.Bool())
	return input{Kind: "parse", V6: v6, P: hex.EncodeToString(p), Q: hex.EncodeToString(q), Gen: gen}
}

// ---------------------------------------------------------------- deterministic prefix

type spec struct {
	v6           bool
	n            int
	proto        byte
	b6, b7       byte
	sport, dport int
	gen          string
}

var prefix []spec

func init() {
	add := func(s spec) { prefix = append(prefix, s) }
	// A: length boundaries for each protocol class
	for _, v6 := range []bool{false, true} {
		lens := []int{0, 1, 19, 20, 21, 23, 24, 25, 33, 34, 35, 80}
		protos := []byte{6, 17, 1, 50, 47, 58}
		if v6 {
			lens = []int{0, 39, 40, 41, 43, 44, 45, 53, 54, 55, 80}
			protos = []byte{6, 17, 58, 50, 47, 1}
		}
		for _, pr := range protos {
			for _, n := range lens {
				add(spec{v6, n, pr, 0x40, 0, 40000 + n, 443, "len-boundary"})
			}
		}
	}
	// B: IPv4 fragment field
	for _, pr := range []byte{6, 17, 1, 50, 0, 49, 51} {
		for _, f := range [][2]byte{{0x20, 0}, {0x40, 0}, {0, 1}, {0x1f, 0xff}, {0xe0, 0}, {0, 0xb9}, {0x20, 0xb9}, {1, 0}, {0, 0}} {
			add(spec{false, 40, pr, f[0], f[1], 33000, 22, "frag-field"})
		}
	}
	// every single bit of bytes 6..7 alone (13 offset bits, 3 flag bits), and each offset bit with MF
	for _, pr := range []byte{6, 17, 50} {
		for bit := 0; bit < 16; bit++ {
			v := 1 << bit
			add(spec{false, 40, pr, byte(v >> 8), byte(v), 33000, 22, "frag-bit"})
			if bit < 13 && pr == 6 {
				add(spec{false, 40, pr, byte(v>>8) | 0x20, byte(v), 33000, 22, "frag-bit"})
			}
		}
	}
	// C: ports around every common port, on either side and on both
	for _, v6 := range []bool{false, true} {
		n := 34
		if v6 {
			n = 54
		}
		for _, pr := range []byte{6, 17} {
			for _, c := range commons {
				for d := -1; d <= 1; d++ {
					add(spec{v6, n, pr, 0, 0, c + d, 40000, "common-sport"})
					add(spec{v6, n, pr, 0, 0, 40000, c + d, "common-dport"})
					add(spec{v6, n, pr, 0, 0, c + d, c + d, "common-both"})
				}
			}
			add(spec{v6, n, pr, 0, 0, 53, 80, "common-pair"})
			add(spec{v6, n, pr, 0, 0, 443, 53, "common-pair"})
			add(spec{v6, n, pr, 0, 0, 8080, 445, "common-pair"})
			for _, o := range oddPorts {
				add(spec{v6, n, pr, 0, 0, o, 51000, "odd-sport"})
				add(spec{v6, n, pr, 0, 0, 51000, o, "odd-dport"})
			}
		}
	}
	// D: every protocol number, both versions, with a common port on one side
	for _, v6 := range []bool{false, true} {
		n := 34
		if v6 {
			n = 54
		}
		for pr := 0; pr < 256; pr++ {
			if pr%2 == 0 {
				add(spec{v6, n, byte(pr), 0, 0, 53, 40000 + pr, "all-protos"})
			} else {
				add(spec{v6, n, byte(pr), 0, 0, 40000 + pr, 443, "all-protos"})
			}
		}
	}
}

// ---------------------------------------------------------------- generator

func pickPort(r *vhlib.Rand) int {
	switch k := r.Intn(100); {
	case k < 30:
		return vhlib.Pick(r, commons) + r.Intn(3) - 1
	case k < 50:
		return vhlib.Pick(r, oddPorts)
	case k < 60:
		return vhlib.Pick(r, commons)
	default:
		return r.Intn(65536)
	}
}

func gen(r *vhlib.Rand, i int, o vhlib.Opts) any {
	if i == 0 {
		return input{Kind: "table"}
	}
	if i-1 < len(prefix) {
		s := prefix[i-1]
		fr := vhlib.NewRand(uint64(7919*i + 13)) // fixed content for the boundary list
		return parseCase(fr, s.v6, mkPacket(fr, s.v6, s.n, s.proto, s.b6, s.b7, s.sport, s.dport), s.gen)
	}
	if r.Chance(4) {
		n := 13
		v6 := r.Bool()
		if v6 {
			n = 37
		}
		return input{Kind: "rev", V6: v6, H: hex.EncodeToString(fill(r, n)), Gen: "random-hash"}
	}
	v6 := r.Bool()
	L := layout(v6)
	var n int
	switch k := r.Intn(100); {
	case k < 55:
		n = L.hdr + r.Intn(81-L.hdr)
	case k < 80:
		n = L.hdr + vhlib.Pick(r, []int{0, 1, 3, 4, 5, 13, 14, 15}) // around the three limits
	case k < 90:
		n = r.Intn(L.hdr) // shorter than the fixed header
	case k < 97:
		n = 20 + r.Intn(61)
	default:
		n = 81 + r.Intn(40)
	}
	if o.Search && r.Chance(50) {
		n = L.hdr + vhlib.Pick(r, []int{0, 1, 3, 4, 13, 14})
	}
	var proto byte
	switch k := r.Intn(100); {
	case k < 35:
		proto = 6
	case k < 65:
		proto = 17
	case k < 75:
		proto = L.icmp
	case k < 80:
		proto = 50
	case k < 87:
		proto = vhlib.Pick(r, []byte{1, 58, 0, 255, 18, 16, 47, 132, 5, 7, 51})
	default:
		proto = byte(r.Intn(256))
	}
	var b6, b7 byte
	switch k := r.Intn(100); {
	case k < 60:
		b6, b7 = vhlib.Pick(r, []byte{0, 0x40}), 0
	case k < 70:
		b6, b7 = vhlib.Pick(r, []byte{0x20, 0x60, 0x80, 0xe0}), 0 // flags only: first fragment
	case k < 80:
		v := 1 << r.Intn(16) // one bit
		b6, b7 = byte(v>>8), byte(v)
	default:
		b6, b7 = byte(r.Intn(256)), byte(r.Intn(256))
	}
	p := mkPacket(r, v6, n, proto, b6, b7, pickPort(r), pickPort(r))
	in := parseCase(r, v6, p, "random")
	if r.Chance(5) && n >= L.hdr { // a second packet that is NOT a twin: only its own parse is judged
		in.Q = hex.EncodeToString(mkPacket(r, v6, n, proto, b6, b7, pickPort(r), pickPort(r)))
		in.Gen = "random-nontwin"
	}
	return in
}

// ---------------------------------------------------------------- running the real code

func parse(v6 bool, b []byte) (o obsT) {
	buf := make([]byte, len(b)) // cap == len: a slice expression beyond len panics as an index does
	copy(buf, b)
	defer func() {
		if r := recover(); r != nil {
			o = obsT{Class: "panic"}
		}
	}()
	var errno capturetypes.ParsingErrno
	var aux byte
	var h []byte
	if v6 {
		var e capturetypes.EPHashV6
		e, aux, errno = capture.ParsePacketV6(slimcap.IPLayer(buf))
		h = e[:]
	} else {
		var e capturetypes.EPHashV4
		e, aux, errno = capture.ParsePacketV4(slimcap.IPLayer(buf))
		h = e[:]
	}
	switch errno {
	case capturetypes.ErrnoOK:
		return obsT{Class: "ok", Hash: hex.EncodeToString(h), Aux: int(aux), hash: h}
	case capturetypes.ErrnoPacketFragmentIgnore:
		return obsT{Class: "frag"}
	case capturetypes.ErrnoPacketTruncated:
		return obsT{Class: "trunc"}
	}
	return obsT{Class: "errno:" + strconv.Itoa(int(errno))}
}

func reverse(v6 bool, h []byte) []byte {
	if v6 {
		var e capturetypes.EPHashV6
		copy(e[:], h)
		r := e.Reverse()
		return r[:]
	}
	var e capturetypes.EPHashV4
	copy(e[:], h)
	r := e.Reverse()
	return r[:]
}

func coqBytes(b []byte) string {
	var sb strings.Builder
	sb.WriteByte('[')
	for i, c := range b {
		if i > 0 {
			sb.WriteByte(';')
		}
		sb.WriteString(strconv.Itoa(int(c)))
	}
	sb.WriteByte(']')
	return sb.String()
}

func coqObs(o obsT) string {
	switch {
	case o.Class == "ok":
		return "(OOk " + coqBytes(o.hash) + " " + strconv.Itoa(o.Aux) + ")"
	case o.Class == "frag":
		return "OFrag"
	case o.Class == "trunc":
		return "OTrunc"
	case o.Class == "panic":
		return "OPanic"
	}
	n, _ := strconv.Atoi(strings.TrimPrefix(o.Class, "errno:"))
	return "(OErrno " + strconv.Itoa(n&0xff) + ")"
}

func lenClass(L lay, n int) string {
	switch {
	case n < L.hdr:
		return "len<hdr"
	case n == L.hdr:
		return "len=hdr"
	case n < L.hdr+4:
		return "len<hdr+4"
	case n < L.hdr+14:
		return "len<hdr+14"
	case n <= 80:
		return "len<=80"
	}
	return "len>80"
}

func protoClass(L lay, p byte) string {
	switch {
	case p == 6:
		return "tcp"
	case p == 17:
		return "udp"
	case p == L.icmp:
		return "icmp"
	case p == 50:
		return "esp"
	case p < 18:
		return "proto<18"
	}
	return "proto-other"
}

func isDocCommon(proto byte, port int) bool {
	switch proto {
	case 6:
		return port == 53 || port == 80 || port == 443 || port == 445 || port == 8080
	case 17:
		return port == 53 || port == 443
	}
	return false
}

func run(raw json.RawMessage, o vhlib.Opts) (*vhlib.Case, error) {
	var in input
	if err := json.Unmarshal(raw, &in); err != nil {
		return nil, err
	}
	c := &vhlib.Case{Tags: []string{in.Kind}}
	ver := "v4"
	if in.V6 {
		ver = "v6"
	}
	switch in.Kind {
	case "table":
		// exhaustive: all 256 protocol bytes x all 65536 two-byte ports
		var ents []string
		var list [][3]int
		panicked := false
		for pr := 0; pr < 256; pr++ {
			for hi := 0; hi < 256; hi++ {
				for lo := 0; lo < 256; lo++ {
					var v bool
					if p, _ := vhlib.Recover(func() { v = capture.VerifIsCommonPort([]byte{byte(hi), byte(lo)}, byte(pr)) }); p {
						panicked = true
						ents = append(ents, "(999,999,999)") // no table has this entry: corr and holds fail
						list = append(list, [3]int{pr, hi, lo})
						break
					}
					if v {
						ents = append(ents, fmt.Sprintf("(%d,%d,%d)", pr, hi, lo))
						list = append(list, [3]int{pr, hi, lo})
					}
				}
			}
		}
		c.Observed = map[string]any{"true_set": list, "panicked": panicked, "probed": 256 * 65536}
		c.Coq = "CTable [" + strings.Join(ents, ";") + "]"
		c.Nontrivial = true
		c.Tags = append(c.Tags, "exhaustive-256x65536")
	case "rev":
		h, err := hex.DecodeString(in.H)
		if err != nil {
			return nil, err
		}
		rv := reverse(in.V6, h)
		c.Observed = map[string]any{"rev": hex.EncodeToString(rv)}
		c.Coq = fmt.Sprintf("CRev %s %s %s", vhlib.CoqBool(in.V6), coqBytes(h), coqBytes(rv))
		c.Nontrivial = true
		c.Tags = append(c.Tags, ver)
	case "parse":
		p, err := hex.DecodeString(in.P)
		if err != nil {
			return nil, err
		}
		q, err := hex.DecodeString(in.Q)
		if err != nil {
			return nil, err
		}
		L := layout(in.V6)
		op := parse(in.V6, p)
		oq := parse(in.V6, q)
		var rv []byte
		if op.Class == "ok" {
			rv = reverse(in.V6, op.hash)
		}
		c.Observed = map[string]any{"p": op, "q": oq, "rev": hex.EncodeToString(rv)}
		c.Coq = fmt.Sprintf("CParse %s %s %s %s %s %s", vhlib.CoqBool(in.V6), coqBytes(p), coqObs(op), coqBytes(rv), coqBytes(q), coqObs(oq))
		c.Tags = append(c.Tags, ver, "gen:"+in.Gen, lenClass(L, len(p)), "p:"+op.Class, "q:"+oq.Class)
		if len(p) >= L.hdr {
			pr := p[L.protoPos]
			c.Tags = append(c.Tags, protoClass(L, pr))
			if hasPorts(pr) && len(p) >= L.hdr+4 {
				sp, dp := int(p[L.hdr])<<8|int(p[L.hdr+1]), int(p[L.hdr+2])<<8|int(p[L.hdr+3])
				switch cs, cd := isDocCommon(pr, sp), isDocCommon(pr, dp); {
				case cs && cd:
					c.Tags = append(c.Tags, "ports:both-common")
				case cs:
					c.Tags = append(c.Tags, "ports:sport-common")
				case cd:
					c.Tags = append(c.Tags, "ports:dport-common")
				default:
					c.Tags = append(c.Tags, "ports:none-common")
				}
			}
		}
		c.Nontrivial = len(p) >= L.hdr
	default:
		return nil, fmt.Errorf("unknown kind %q", in.Kind)
	}
	return c, nil
}

func main() { vhlib.Main(gen, run) }
