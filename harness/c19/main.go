package main

import (
	"fmt"

	"github.com/els0r/goProbe/v4/pkg/capture"
)

func main() { fmt.Println(capture.VerifIsCommonPort([]byte{0, 53}, 6)) }
