// C20 correspondence harness: the REAL capture.Manager fed by the scripted source of package
// verifharness/c21/vsrc with generated packet sequences and rotation schedules. Rotations run through
// the Manager's write-out path (performWriteout via the verif hook) into the REAL GoDB write-out
// handler (writeout.GoDBHandler -> goDB.DBWriter) writing below the -work directory; the written
// blocks are read back from the database files, the flow log is dumped through the hook.
package main

import (
	"context"
	"encoding/hex"
	"encoding/json"
	"fmt"
	"os"
	"path/filepath"
	"sort"
	"time"

	"verifharness/c21/vsrc"
	"verifharness/vhlib"

	"github.com/els0r/goProbe/v4/pkg/capture/capturetypes"
	"github.com/els0r/goProbe/v4/pkg/goDB/encoder/encoders"
	"github.com/els0r/goProbe/v4/pkg/goDB/storage/gpfile"
	"github.com/els0r/goProbe/v4/pkg/goprobe/writeout"
	"github.com/els0r/goProbe/v4/pkg/types"
	"github.com/fako1024/gotools/bitpack"
)

type pktIn struct {
	D string `json:"d"`
	T uint8  `json:"t"`
	S uint32 `json:"s"`
}
type evIn struct {
	K  string `json:"k"` // p | rot | status | query
	I  int    `json:"i,omitempty"`
	In bool   `json:"in,omitempty"` // packet fetched while the lock of the directly preceding rot / status / query is held
}
type input struct {
	Pkts []pktIn `json:"pkts"`
	Evs  []evIn  `json:"evs"`
}

type conv struct {
	v6           bool
	proto        byte
	a, b         []byte
	cport, sport uint16
}

func mkPkt(c conv, rev bool, flags, icmpType byte, cport uint16) []byte {
	src, dst, sp, dp := c.a, c.b, cport, c.sport
	if rev {
		src, dst, sp, dp = c.b, c.a, c.sport, cport
	}
	var b []byte
	off := 20
	if c.v6 {
		off = 40
		b = make([]byte, 54)
		b[0], b[6] = 0x60, c.proto
		copy(b[8:24], src)
		copy(b[24:40], dst)
	} else {
		b = make([]byte, 34)
		b[0], b[8], b[9] = 0x45, 64, c.proto
		copy(b[12:16], src)
		copy(b[16:20], dst)
	}
	switch c.proto {
	case 6, 17:
		b[off], b[off+1], b[off+2], b[off+3] = byte(sp>>8), byte(sp), byte(dp>>8), byte(dp)
		if c.proto == 6 {
			b[off+13] = flags
		} else {
			b = b[:off+8]
		}
	case 1, 58:
		b[off] = icmpType
		b = b[:off+8]
	default:
		b = b[:off+4]
	}
	return b
}
func ip4(a, b, c, d byte) []byte { return []byte{a, b, c, d} }
func ip6(hi, lo byte) []byte {
	x := make([]byte, 16)
	x[0], x[1], x[15] = 0x20, hi, lo
	return x
}

// conversations between pairwise distinct host pairs (holds relies on it for "one row per conversation")
var convs = []conv{
	{false, 6, ip4(10, 0, 0, 1), ip4(10, 0, 0, 2), 50000, 22},
	{false, 6, ip4(10, 0, 0, 3), ip4(10, 0, 0, 4), 40000, 443},
	{false, 6, ip4(10, 0, 0, 5), ip4(10, 0, 0, 6), 20, 40000},  // SYN from the low port: heuristics disagree (C22)
	{false, 6, ip4(10, 0, 0, 7), ip4(10, 0, 0, 8), 7000, 7000}, // equal ports
	{false, 17, ip4(192, 168, 1, 7), ip4(8, 8, 8, 8), 40001, 53},
	{false, 17, ip4(192, 168, 1, 9), ip4(224, 0, 0, 251), 5353, 5353},
	{false, 1, ip4(10, 0, 1, 1), ip4(10, 0, 1, 9), 0, 0},
	{false, 50, ip4(172, 16, 0, 1), ip4(172, 16, 0, 2), 0, 0},
	{true, 6, ip6(0, 1), ip6(0, 2), 49152, 80},
	{true, 6, ip6(1, 1), ip6(1, 2), 51000, 8443},
	{true, 17, ip6(0, 3), ip6(0, 4), 33333, 53},
	{true, 58, ip6(0, 5), ip6(0, 6), 0, 0},
	{true, 47, ip6(0, 7), ip6(0, 8), 0, 0},
	// client port below the server port, non-common ports: IsProbablyReverse() is true for the FORWARD hash, so
	// packets in the direction of the stored key take the second lookup of the "probably reverse" fast path
	{true, 6, ip6(2, 1), ip6(2, 2), 40000, 50000},
	{false, 6, ip4(10, 0, 2, 1), ip4(10, 0, 2, 2), 40000, 50000},
	{true, 6, ip6(2, 3), ip6(2, 4), 1024, 3306},
	{false, 6, ip4(10, 0, 2, 3), ip4(10, 0, 2, 4), 1024, 3306},
	{true, 17, ip6(2, 5), ip6(2, 6), 2000, 4500},
	{false, 17, ip4(10, 0, 2, 5), ip4(10, 0, 2, 6), 2000, 4500},
	{true, 17, ip6(2, 7), mcast6(), 546, 547},                        // DHCPv6 solicit to ff02::1:2
	{false, 17, ip4(10, 0, 2, 7), ip4(255, 255, 255, 255), 137, 138}, // broadcast, sport < dport
	{false, 17, ip4(0, 0, 0, 0), ip4(255, 255, 255, 255), 68, 67},    // DHCP
}

// nBase is the number of hand-written templates above; behind them: conversations whose two ports are BOTH in the
// common-port table (all ordered pairs of TCP {53,80,443,445,8080} and of UDP {53,443}), IPv4 and IPv6, each between
// its own host pair. The parser zeroes both ports in both directions, so the two keys are each other's Reverse().
const nBase = 22

var commonTCP = []uint16{53, 80, 443, 445, 8080}
var commonUDP = []uint16{53, 443}

func init() {
	n := byte(0)
	add := func(proto byte, ports []uint16) {
		for _, p := range ports {
			for _, q := range ports {
				n++
				convs = append(convs, conv{false, proto, ip4(10, 1, n, 1), ip4(10, 1, n, 2), p, q})
				convs = append(convs, conv{true, proto, ip6(3, 2*n), ip6(3, 2*n+1), p, q})
			}
		}
	}
	add(6, commonTCP)
	add(17, commonUDP)
	fixed = fixedCases()
}

func mcast6() []byte {
	x := make([]byte, 16)
	x[0], x[1], x[13], x[15] = 0xff, 0x02, 1, 2
	return x
}

type builder struct {
	in  input
	idx map[string]int
}

func newBuilder() *builder { return &builder{idx: map[string]int{}} }
func (b *builder) pkt(d []byte, t uint8, s uint32) *builder {
	key := fmt.Sprintf("%x/%d/%d", d, t, s)
	i, ok := b.idx[key]
	if !ok {
		i = len(b.in.Pkts)
		b.idx[key] = i
		b.in.Pkts = append(b.in.Pkts, pktIn{hex.EncodeToString(d), t, s})
	}
	b.in.Evs = append(b.in.Evs, evIn{K: "p", I: i})
	return b
}
func (b *builder) pktIn(d []byte, t uint8, s uint32) *builder {
	b.pkt(d, t, s)
	b.in.Evs[len(b.in.Evs)-1].In = true
	return b
}
func (b *builder) ev(k string) *builder {
	b.in.Evs = append(b.in.Evs, evIn{K: k})
	return b
}

func fixedCases() []input {
	var out []input
	ssh, web := convs[0], convs[8]
	f := func(c conv, rev bool) []byte { return mkPkt(c, rev, 0x10, 0, c.cport) }
	// both directions of an IPv4 and an IPv6 conversation, rotation, silence, rotation (idle flows not written, pruned), traffic again
	out = append(out, newBuilder().pkt(f(ssh, false), 4, 60).pkt(f(ssh, true), 0, 1500).pkt(f(web, true), 4, 9).pkt(f(web, false), 0, 70).
		ev("rot").ev("rot").ev("rot").pkt(f(ssh, true), 0, 5).ev("rot").in)
	// reply direction first; then rotation between the two directions
	out = append(out, newBuilder().pkt(f(web, true), 4, 100).ev("rot").pkt(f(web, false), 0, 40).ev("query").ev("rot").pkt(f(web, true), 4, 1).in)
	// three client ports to one server: three flow-log entries, one written row
	hi := convs[9]
	out = append(out, newBuilder().pkt(mkPkt(hi, false, 0x10, 0, 51000), 0, 10).pkt(mkPkt(hi, false, 0x10, 0, 51001), 0, 20).
		pkt(mkPkt(hi, true, 0x10, 0, 51002), 4, 30).pkt(mkPkt(hi, true, 0x10, 0, 51000), 4, 40).ev("status").ev("rot").in)
	// rotation of an empty flow log, of a log with only parse errors
	frag := f(ssh, false)
	frag[6], frag[7] = 0x20, 1
	out = append(out, newBuilder().ev("rot").pkt(frag, 0, 10).pkt(f(web, false)[:50], 0, 11).ev("rot").pkt(f(ssh, false), 4, 1).ev("rot").in)
	// byte counter wrap-around: 2^32-1 sized packets do not wrap a uint64 in a test, but exercise the top of uint32
	out = append(out, newBuilder().pkt(f(ssh, false), 4, 0xffffffff).pkt(f(ssh, false), 4, 0xffffffff).pkt(f(ssh, true), 0, 0).ev("rot").in)
	// SYN from a low port (heuristics disagree), equal ports, multicast, ESP, GRE over IPv6, ICMP request / reply
	b := newBuilder()
	b.pkt(mkPkt(convs[2], false, 0x02, 0, 20), 4, 60).pkt(mkPkt(convs[2], true, 0x12, 0, 20), 0, 60)
	b.pkt(mkPkt(convs[3], true, 0x10, 0, 7000), 0, 61).pkt(mkPkt(convs[3], false, 0x10, 0, 7000), 4, 62)
	b.pkt(mkPkt(convs[5], false, 0, 0, 5353), 4, 63).pkt(mkPkt(convs[7], true, 0, 0, 0), 0, 64).pkt(mkPkt(convs[7], false, 0, 0, 0), 4, 65)
	b.pkt(mkPkt(convs[12], false, 0, 0, 0), 4, 66).pkt(mkPkt(convs[6], true, 0, 0, 0), 0, 67).pkt(mkPkt(convs[6], false, 0, 8, 0), 4, 68)
	out = append(out, b.ev("rot").in)
	// flow stored under a hash with sport < dport on non-common ports, then more packets in the SAME direction while
	// the reverse hash is absent (second lookup of the probably-reverse fast path), IPv6 and IPv4:
	for _, k := range []int{13, 14} {
		lo := convs[k]
		// TCP SYN :40000 -> :50000, SYN retransmission, later client packets, then the reply
		out = append(out, newBuilder().pkt(mkPkt(lo, false, 0x02, 0, lo.cport), 4, 60).pkt(mkPkt(lo, false, 0x02, 0, lo.cport), 4, 60).
			pkt(mkPkt(lo, false, 0x10, 0, lo.cport), 4, 52).pkt(mkPkt(lo, true, 0x12, 0, lo.cport), 0, 61).pkt(mkPkt(lo, false, 0x18, 0, lo.cport), 4, 700).ev("rot").in)
		// mid-stream: first packet without SYN (port heuristics store the reversed key), same direction again, reply, rotation in between
		out = append(out, newBuilder().pkt(mkPkt(lo, false, 0x10, 0, lo.cport), 4, 52).pkt(mkPkt(lo, false, 0x18, 0, lo.cport), 4, 53).
			pkt(mkPkt(lo, true, 0x10, 0, lo.cport), 0, 54).ev("rot").pkt(mkPkt(lo, true, 0x10, 0, lo.cport), 0, 55).pkt(mkPkt(lo, true, 0x18, 0, lo.cport), 0, 56).
			pkt(mkPkt(lo, false, 0x10, 0, lo.cport), 4, 57).ev("rot").in)
	}
	for _, k := range []int{19, 20, 21, 17, 18} {
		mc := convs[k]
		// repeated UDP to a multicast / broadcast destination (DHCPv6 546 -> ff02::1:2:547 and analogues), unicast UDP both orders
		out = append(out, newBuilder().pkt(mkPkt(mc, false, 0, 0, mc.cport), 4, 100).pkt(mkPkt(mc, false, 0, 0, mc.cport), 4, 101).
			pkt(mkPkt(mc, false, 0, 0, mc.cport), 4, 102).ev("rot").pkt(mkPkt(mc, false, 0, 0, mc.cport), 4, 103).pkt(mkPkt(mc, false, 0, 0, mc.cport), 4, 104).ev("rot").in)
	}
	// both ports common: request and reply within one interval must be ONE record / ONE row; 6 conversations per case
	for lo := nBase; lo < len(convs); lo += 6 {
		b := newBuilder()
		hi := lo + 6
		if hi > len(convs) {
			hi = len(convs)
		}
		for k := lo; k < hi; k++ {
			c := convs[k]
			b.pkt(mkPkt(c, false, 0x18, 0, c.cport), 4, uint32(100+k)).pkt(mkPkt(c, true, 0x18, 0, c.cport), 0, uint32(200+k))
		}
		b.ev("rot")
		for k := lo; k < hi; k++ { // reply direction first in the next interval
			c := convs[k]
			b.pkt(mkPkt(c, true, 0x10, 0, c.cport), 0, uint32(300+k)).pkt(mkPkt(c, false, 0x10, 0, c.cport), 4, uint32(400+k))
		}
		out = append(out, b.ev("rot").in)
	}
	// packets fetched while the lock is held (local buffer path): IPv6 / IPv4 outgoing, inbound TCP with flags exactly
	// 0x04, inbound ICMPv6 type 4 - direction must come from the packet type, not from the aux byte
	{
		web, ssh, ic := convs[8], convs[0], convs[11]
		for _, w := range []string{"rot", "status", "query"} {
			out = append(out, newBuilder().pkt(mkPkt(web, false, 0x10, 0, web.cport), 0, 70).ev(w).
				pktIn(mkPkt(web, true, 0x10, 0, web.cport), 4, 1500).pktIn(mkPkt(web, false, 0x04, 0, web.cport), 0, 41).
				pktIn(mkPkt(ic, true, 0, 4, 0), 0, 90).pktIn(mkPkt(ic, false, 0, 128, 0), 4, 91).
				pktIn(mkPkt(ssh, true, 0x04, 0, ssh.cport), 0, 42).pktIn(mkPkt(ssh, false, 0x10, 0, ssh.cport), 4, 43).ev("rot").in)
		}
	}
	return out
}

var fixed []input // filled by init (after the generated templates exist)

func gen(r *vhlib.Rand, i int, o vhlib.Opts) any {
	if i < len(fixed) {
		return fixed[i]
	}
	b := newBuilder()
	nc := 2 + r.Intn(3)
	cs := make([]conv, nc)
	noVary := make([]bool, nc)
	swapped := map[int]bool{} // per template, so that two picks of one template agree on the port order
	for k := range cs {
		ti := r.Intn(nBase)
		switch x := r.Intn(100); {
		case x < 35:
			ti = 13 + r.Intn(nBase-13) // templates with the client port below the server port
		case x < 60:
			ti = nBase + r.Intn(len(convs)-nBase) // both ports common
		}
		cs[k] = convs[ti]
		sw, seen := swapped[ti]
		if !seen {
			sw = r.Chance(30)
			swapped[ti] = sw
		}
		if sw && (cs[k].proto == 6 || cs[k].proto == 17) {
			cs[k].cport, cs[k].sport = cs[k].sport, cs[k].cport // the other port order
		}
		// client port variations only for the classic shape (ephemeral client port, low server port): the heuristics
		// then orient all conversations with one server alike, which `holds` uses for "one row per conversation"
		noVary[k] = !(cs[k].cport >= 32768 && cs[k].sport < 32768)
	}
	lastC, lastRev := -1, false
	nseg := 2 + r.Intn(3)
	if o.Tier == "thorough" || o.Search {
		nseg = 2 + r.Intn(5)
	}
	onePkt := func(inWindow bool) {
		ci := r.Intn(nc)
		rev := r.Bool()
		if lastC >= 0 && r.Chance(45) {
			ci, rev = lastC, lastRev // another packet of the same conversation in the same direction
		} else if lastC >= 0 && r.Chance(25) {
			ci, rev = lastC, !lastRev // the answer
		}
		lastC, lastRev = ci, rev
		c := cs[ci]
		// flags a client / a server really sends (the classifier's heuristics then agree on the orientation
		// of all conversations with one server, C22: c22_tcp_consistent); conflicting ones are in the fixed cases
		flags := vhlib.Pick(r, []byte{0x02, 0x10, 0x18, 0x11, 0x04, 0x00, 0x80, 0x81})
		if rev {
			flags = vhlib.Pick(r, []byte{0x12, 0x10, 0x18, 0x11, 0x04, 0x00, 0x80, 0x81})
		}
		var ity byte
		if c.proto == 1 {
			ity = map[bool]byte{false: 8, true: 0}[rev]
		} else if c.proto == 58 {
			ity = map[bool]byte{false: 128, true: 129}[rev]
		}
		cport := c.cport
		if r.Chance(25) && !noVary[ci] {
			cport += uint16(1 + r.Intn(2))
		}
		if r.Chance(25) {
			flags = vhlib.Pick(r, []byte{0x10, 0x18, 0x04}) // mid-stream packet without SYN
		}
		d := mkPkt(c, rev, flags, ity, cport)
		switch r.Intn(30) {
		case 0:
			if !c.v6 {
				d[6], d[7] = 0x20, byte(1+r.Intn(255))
			}
		case 1:
			if hdr := map[bool]int{false: 20, true: 40}[c.v6]; len(d)-5 >= hdr {
				d = d[:len(d)-5]
			}
		case 2:
			d[0] = 0x55
		}
		// packet type (direction w.r.t. the interface) is a dimension of its own: inbound 0 / outgoing 4, rarely others
		t := vhlib.Pick(r, []uint8{0, 4})
		if r.Chance(6) {
			t = vhlib.Pick(r, []uint8{1, 2, 3, 255})
		}
		sz := uint32(40 + r.Intn(1460))
		if r.Chance(4) {
			sz = vhlib.Pick(r, []uint32{0, 1, 65535, 0xffffffff})
		}
		if inWindow {
			b.pktIn(d, t, sz)
		} else {
			b.pkt(d, t, sz)
		}
	}
	for s := 0; s < nseg; s++ {
		np := r.Intn(7)
		if r.Chance(15) {
			np = 0 // silent interval
		}
		for k := 0; k < np; k++ {
			onePkt(false)
		}
		if s < nseg-1 || r.Chance(60) {
			b.ev(vhlib.Pick(r, []string{"rot", "rot", "rot", "rot", "status", "query"}))
			if r.Chance(50) { // packets fetched while the lock is held: they go through the local buffer
				for k := 1 + r.Intn(3); k > 0; k-- {
					onePkt(true)
				}
			}
		}
	}
	return b.in
}

// ---------------------------------------------------------------- DB read-back

type row struct {
	key string
	c   [4]uint64
}

func numericDirs(p string) ([]string, error) {
	ents, err := os.ReadDir(p)
	if err != nil {
		return nil, err
	}
	var out []string
	for _, e := range ents {
		if e.IsDir() {
			out = append(out, e.Name())
		}
	}
	sort.Strings(out)
	return out, nil
}

// readDB returns, per block timestamp, the IPv4 and IPv6 rows (key = sip|dip|dport|proto, hex)
func readDB(ifacePath string) (map[int64][2][]row, error) {
	out := map[int64][2][]row{}
	years, err := numericDirs(ifacePath)
	if err != nil {
		if os.IsNotExist(err) {
			return out, nil
		}
		return nil, err
	}
	for _, y := range years {
		months, err := numericDirs(filepath.Join(ifacePath, y))
		if err != nil {
			return nil, err
		}
		for _, m := range months {
			days, err := numericDirs(filepath.Join(ifacePath, y, m))
			if err != nil {
				return nil, err
			}
			for _, d := range days {
				dayTs, suffix, err := gpfile.ExtractTimestampMetadataSuffix(d)
				if err != nil {
					return nil, err
				}
				rd := gpfile.NewDirReader(ifacePath, dayTs, suffix)
				if err := rd.Open(); err != nil {
					return nil, err
				}
				for bi, blk := range rd.BlockMetadata[0].Blocks() {
					var data [types.ColIdxCount][]byte
					for c := types.ColumnIndex(0); c < types.ColIdxCount; c++ {
						bb, err := rd.ReadBlockAtIndex(c, bi)
						if err != nil {
							rd.Close()
							return nil, err
						}
						data[c] = append([]byte(nil), bb...)
					}
					n4, n6 := int(rd.NumIPv4EntriesAtIndex(bi)), int(rd.NumIPv6EntriesAtIndex(bi))
					n := n4 + n6
					var cs [4][]uint64
					for j, c := range []types.ColumnIndex{types.BytesRcvdColIdx, types.BytesSentColIdx, types.PacketsRcvdColIdx, types.PacketsSentColIdx} {
						cs[j] = bitpack.UnpackInto(data[c], nil)
						if len(cs[j]) != n {
							rd.Close()
							return nil, fmt.Errorf("block %d: counter column %d has %d entries, metadata says %d", blk.Timestamp, j, len(cs[j]), n)
						}
					}
					if len(data[types.SIPColIdx]) != 4*n4+16*n6 || len(data[types.DIPColIdx]) != 4*n4+16*n6 ||
						len(data[types.DportColIdx]) != 2*n || len(data[types.ProtoColIdx]) != n {
						rd.Close()
						return nil, fmt.Errorf("block %d: attribute column sizes do not match the metadata", blk.Timestamp)
					}
					var rows [2][]row
					for e := 0; e < n; e++ {
						var k []byte
						v := 0
						if e < n4 {
							k = append(k, data[types.SIPColIdx][4*e:4*e+4]...)
							k = append(k, data[types.DIPColIdx][4*e:4*e+4]...)
						} else {
							v = 1
							o := 4*n4 + 16*(e-n4)
							k = append(k, data[types.SIPColIdx][o:o+16]...)
							k = append(k, data[types.DIPColIdx][o:o+16]...)
						}
						k = append(k, data[types.DportColIdx][2*e:2*e+2]...)
						k = append(k, data[types.ProtoColIdx][e])
						rows[v] = append(rows[v], row{hex.EncodeToString(k), [4]uint64{cs[0][e], cs[1][e], cs[2][e], cs[3][e]}})
					}
					out[blk.Timestamp] = rows
				}
				rd.Close()
			}
		}
	}
	return out, nil
}

// ---------------------------------------------------------------- run

func coqFlows(fs []vsrc.Flow) string {
	xs := make([]string, len(fs))
	for i, f := range fs {
		xs[i] = fmt.Sprintf("(%s,(%d,%d,%d,%d))", vhlib.CoqStr(f.Key), f.BR, f.BS, f.PR, f.PS)
	}
	return vhlib.CoqList(xs)
}
func coqRows(rs []row) string {
	sort.Slice(rs, func(i, j int) bool { return rs[i].key < rs[j].key })
	xs := make([]string, len(rs))
	for i, r := range rs {
		xs[i] = fmt.Sprintf("(%s,(%d,%d,%d,%d))", vhlib.CoqStr(r.key), r.c[0], r.c[1], r.c[2], r.c[3])
	}
	return vhlib.CoqList(xs)
}

func run(raw json.RawMessage, o vhlib.Opts) (*vhlib.Case, error) {
	var in input
	if err := json.Unmarshal(raw, &in); err != nil {
		return nil, err
	}
	dir, err := os.MkdirTemp(o.Work, "c20-")
	if err != nil {
		return nil, err
	}
	defer os.RemoveAll(dir)

	s := vsrc.Schedule{Init: 128, Limit: 1 << 20}
	var cevs []string
	nrot := 0
	tags := map[string]bool{}
	for _, e := range in.Evs {
		switch e.K {
		case "p":
			if e.I < 0 || e.I >= len(in.Pkts) {
				return nil, fmt.Errorf("packet index %d out of range", e.I)
			}
			p := in.Pkts[e.I]
			b, err := hex.DecodeString(p.D)
			if err != nil || len(b) == 0 {
				return nil, fmt.Errorf("bad packet %d", e.I)
			}
			if v := b[0] >> 4; (v == 4 && len(b) < 20) || (v == 6 && len(b) < 40) {
				return nil, fmt.Errorf("packet %d is shorter than its fixed header (the parser would panic)", e.I)
			}
			if e.In {
				if n := len(s.Evs); n == 0 || s.Evs[n-1].K != "unlock" {
					return nil, fmt.Errorf("in-window packet %d does not follow a lock window", e.I)
				}
				s.Evs = append(s.Evs[:len(s.Evs)-1], vsrc.Ev{K: "p", D: p.D, T: p.T, S: p.S}, vsrc.Ev{K: "unlock"})
				cevs = append(cevs[:len(cevs)-1], fmt.Sprintf("CP %d", e.I), "CU")
				tags[fmt.Sprintf("in-window-v%d-type%d", b[0]>>4, p.T)] = true
			} else {
				s.Evs = append(s.Evs, vsrc.Ev{K: "p", D: p.D, T: p.T, S: p.S})
				cevs = append(cevs, fmt.Sprintf("CP %d", e.I))
			}
			tags[fmt.Sprintf("v%d", b[0]>>4)] = true
		case "rot":
			s.Evs = append(s.Evs, vsrc.Ev{K: "lock", W: "writeout"}, vsrc.Ev{K: "unlock"})
			cevs = append(cevs, "CL", "CA AStatus", "CA ARotate", "CU")
			nrot++
		case "status":
			s.Evs = append(s.Evs, vsrc.Ev{K: "lock", W: "status"}, vsrc.Ev{K: "unlock"})
			cevs = append(cevs, "CL", "CA AStatus", "CU")
		case "query":
			s.Evs = append(s.Evs, vsrc.Ev{K: "lock", W: "query"}, vsrc.Ev{K: "unlock"})
			cevs = append(cevs, "CL", "CA AQuery", "CU")
		default:
			return nil, fmt.Errorf("unknown event %q", e.K)
		}
	}
	h := writeout.NewGoDBHandler(dir, encoders.EncoderTypeLZ4)
	res, err := vsrc.Run(s, func(ctx context.Context, ts time.Time, ch <-chan capturetypes.TaggedAggFlowMap) <-chan struct{} {
		return h.HandleWriteout(ctx, ts, ch)
	})
	if err != nil {
		return nil, err
	}
	db, err := readDB(filepath.Join(dir, vsrc.Iface))
	if err != nil {
		return nil, fmt.Errorf("reading the DB back: %w", err)
	}
	// the Manager writes once more when the interface is closed (after the flow log dump): ignore that block
	blocks := make([]string, nrot)
	type blockObs struct {
		Ts     int64
		V4, V6 []row
	}
	var obsBlocks []map[string]any
	nonIdle := 0
	for k := 0; k < nrot; k++ {
		ts := int64(vsrc.BaseTime + 300*k)
		rows, ok := db[ts]
		if !ok {
			if res.Stalled > 0 { // abandoned run: the remaining write-outs never happened
				blocks = blocks[:k]
				break
			}
			return nil, fmt.Errorf("no block with timestamp %d in the DB", ts)
		}
		blocks[k] = "(" + coqRows(rows[0]) + "," + coqRows(rows[1]) + ")"
		obsBlocks = append(obsBlocks, map[string]any{"ts": ts, "v4": fmt.Sprint(rows[0]), "v6": fmt.Sprint(rows[1])})
		nonIdle += len(rows[0]) + len(rows[1])
		if len(rows[0])+len(rows[1]) == 0 {
			tags["empty-block"] = true
		}
	}
	if nrot >= 2 {
		tags["multi-rotation"] = true
	}
	var tl []string
	for t := range tags {
		tl = append(tl, t)
	}
	pk := make([]string, len(in.Pkts))
	for i, p := range in.Pkts {
		pk[i] = fmt.Sprintf("(%s,%d,%d)", vhlib.CoqStr(p.D), p.T, p.S)
	}
	coq := fmt.Sprintf("(mk_case %s %s %s %s %s %s)", vhlib.CoqList(pk), vhlib.CoqList(cevs), coqFlows(res.V4), coqFlows(res.V6), vhlib.CoqList(blocks), vhlib.CoqNat(res.Stalled))
	return &vhlib.Case{
		Observed:   map[string]any{"flowlog_v4": res.V4, "flowlog_v6": res.V6, "blocks": obsBlocks, "stalled": res.Stalled, "aborted": res.Aborted},
		Tags:       vhlib.SortedCopy(tl),
		Nontrivial: nrot > 0 && nonIdle > 0,
		Coq:        coq,
	}, nil
}

func main() { vhlib.Main(gen, run) }
