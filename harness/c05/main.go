// C05 harness: failed I/O during a write-out never damages committed data.
// The real writer runs in a child under strace with an error injected into DB-related call number k
// (position calibrated from a fault-free trace of the same write-out on a copy of the tree); the real
// reader then runs on the tree, and a fault-free write-out follows.
package main

import (
	"encoding/json"
	"errors"
	"flag"
	"fmt"
	"os"
	"sync"

	"verifharness/c04/wo"
	"verifharness/vhlib"
)

var (
	env     wo.Env
	planMu  sync.Mutex
	plan    []wo.FaultInput
	planKey string
	cache   sync.Map
)

type cached struct {
	c   *vhlib.Case
	err error
}

var errnos = []string{"ENOSPC", "EIO", "EACCES"}

func fatal(err error) {
	if errors.Is(err, wo.ErrInfra) {
		fmt.Fprintln(os.Stderr, "HARNESS ERROR (infrastructure, not a property violation):", err)
	} else {
		fmt.Fprintln(os.Stderr, "HARNESS ERROR:", err)
	}
	os.Exit(3)
}

// nops: the number of DB-related calls of write-out w after hist, from a calibration of hist ++ [w]
func nops(hist []wo.WriteOut, w wo.WriteOut) ([]wo.Op, error) {
	full := append(append([]wo.WriteOut{}, hist...), w)
	cf, err := env.Calibrate(full)
	if err != nil {
		return nil, err
	}
	if len(hist) == 0 {
		return cf.Ops, nil
	}
	ch, err := env.Calibrate(hist)
	if err != nil {
		return nil, err
	}
	return cf.Ops[len(ch.Ops):], nil
}

func buildPlan(seed uint64, n int, tier string, search bool) []wo.FaultInput {
	r := vhlib.NewRand(seed)
	type scen struct {
		hist []wo.WriteOut
		w    wo.WriteOut
	}
	base := []wo.WriteOut{
		{ID: 0, Iface: "eth0", TS: 1700000100, NV4: 2, NV6: 1, Drops: 3},
		{ID: 1, Iface: "eth0", TS: 1700000400, NV4: 1, NV6: 0, Drops: 0},
	}
	scens := []scen{
		{nil, wo.WriteOut{ID: 0, Iface: "eth0", TS: 1700000100, NV4: 2, NV6: 1, Drops: 3}},            // first write-out ever
		{base, wo.WriteOut{ID: 2, Iface: "eth0", TS: 1700000700, NV4: 1, NV6: 1, Drops: 2}},           // existing day, new totals
		{base, wo.WriteOut{ID: 2, Iface: "eth0", TS: 1700000700, NV4: 1, NV6: 0, Drops: 0, Bulk: 44}}, // compressed columns
	}
	extra := 0
	if tier == "thorough" {
		extra = 12
	}
	if search {
		extra += 2
	}
	for i := 0; i < extra; i++ {
		hr := r.Fork()
		h := wo.GenHist(hr, 1+hr.Intn(4), 0, 1700000100+int64(hr.Intn(40))*86400)
		scens = append(scens, scen{h[:len(h)-1], h[len(h)-1]})
	}
	var p []wo.FaultInput
	for si, sc := range scens {
		ops, err := nops(sc.hist, sc.w)
		if err != nil {
			fatal(err)
		}
		// the healing write-out has compressed columns: it depends on where the column files are opened
		heal := wo.WriteOut{ID: sc.w.ID + 1, Iface: sc.w.Iface, TS: sc.w.TS + 300, NV4: 1, NV6: 1, Drops: 1, Bulk: 40}
		for k := 0; k < len(ops); k++ {
			es := []string{errnos[(k+si)%3]}
			if tier == "thorough" {
				es = errnos
			}
			for _, e := range es {
				p = append(p, wo.FaultInput{Hist: sc.hist, Faults: []wo.Fault{{W: sc.w, K: k, Errno: e}}, Heal: heal})
			}
		}
		if tier == "thorough" || si == 1 {
			// sequences of two or three consecutive faulted write-outs (the second one retries later timestamps)
			hr := r.Fork()
			for q := 0; q < 6; q++ {
				var fl []wo.Fault
				nf := 2 + hr.Intn(2)
				for i := 0; i < nf; i++ {
					w := sc.w
					w.ID = sc.w.ID + i
					w.TS = sc.w.TS + int64(i)*300
					k := hr.Intn(len(ops))
					fl = append(fl, wo.Fault{W: w, K: k, Errno: errnos[hr.Intn(3)]})
				}
				heal2 := heal
				heal2.ID = sc.w.ID + nf
				heal2.TS = sc.w.TS + int64(nf)*300
				p = append(p, wo.FaultInput{Hist: sc.hist, Faults: fl, Heal: heal2})
			}
		}
	}
	if len(p) > n {
		p = p[:n]
	}
	return p
}

func getPlan(o vhlib.Opts) []wo.FaultInput {
	planMu.Lock()
	defer planMu.Unlock()
	key := fmt.Sprint(o.Seed, o.N, o.Tier, o.Search)
	if plan == nil || planKey != key {
		plan, planKey = buildPlan(o.Seed, o.N, o.Tier, o.Search), key
		var wg sync.WaitGroup
		sem := make(chan struct{}, 8)
		for _, in := range plan {
			raw, _ := json.Marshal(in)
			wg.Add(1)
			go func(in wo.FaultInput, key string) {
				defer wg.Done()
				sem <- struct{}{}
				defer func() { <-sem }()
				c, err := env.RunFaultCase(in)
				cache.Store(key, cached{c, err})
			}(in, string(raw))
		}
		wg.Wait()
	}
	return plan
}

func gen(r *vhlib.Rand, i int, o vhlib.Opts) any {
	p := getPlan(o)
	if i >= len(p) {
		return nil
	}
	return p[i]
}

func run(raw json.RawMessage, o vhlib.Opts) (*vhlib.Case, error) {
	var in wo.FaultInput
	if err := json.Unmarshal(raw, &in); err != nil {
		return nil, err
	}
	key, _ := json.Marshal(in)
	if v, ok := cache.Load(string(key)); ok {
		cv := v.(cached)
		return cv.c, cv.err
	}
	return env.RunFaultCase(in)
}

func main() {
	wo.MaybeChild()
	exe, err := os.Executable()
	if err != nil {
		fatal(err)
	}
	env.Bin = exe
	fs := flag.NewFlagSet("pre", flag.ContinueOnError)
	fs.SetOutput(new(nullWriter))
	work := fs.String("work", ".", "")
	for _, f := range []string{"seed", "n", "tier", "out", "in"} {
		fs.String(f, "", "")
	}
	fs.Bool("search", false, "")
	if len(os.Args) > 2 {
		_ = fs.Parse(os.Args[2:])
	}
	env.Work = *work
	vhlib.Main(gen, run)
}

type nullWriter struct{}

func (nullWriter) Write(p []byte) (int, error) { return len(p), nil }
