// C29 correspondence harness: live queries.
//
// A real capture.Manager (verif hook VerifC29NewManager: mock ring buffer sources that never
// deliver a packet, real three-point capture lock, real GoDB write-out handler) runs one capture.
// A generated history is applied to it: packets / injected counters on flow log entries (hook,
// under the capture lock), real write-outs (Manager.performWriteout -> FlowLog.Rotate -> DBWriter)
// and LIVE QUERIES through the real engine (engine.NewQueryRunner(db, WithLiveData(cm)).Run with
// query.WithLive()): Manager.GetFlowMaps -> Capture.flowMap -> FlowLog.Aggregate -> goDB.QueryFilter
// -> engine aggregate() -> row materialisation.
//
// Observed per live query: the rows and totals, the rows of the same query on stored data only
// (taken immediately before), the complete flow log (idle entries included) before and after.
// At the end of the history a final write-out is made and the whole DB is read back
// (time,sip,dip,dport,proto); the same history WITHOUT its live queries is run on a second
// manager / DB and read back the same way.
package main

import (
	"context"
	"encoding/binary"
	"encoding/json"
	"fmt"
	"net/netip"
	"os"
	"path/filepath"
	"sort"
	"strconv"
	"strings"

	"verifharness/vhlib"

	"github.com/els0r/goProbe/v4/pkg/capture"
	"github.com/els0r/goProbe/v4/pkg/goDB/engine"
	"github.com/els0r/goProbe/v4/pkg/goDB/protocols"
	"github.com/els0r/goProbe/v4/pkg/query"
	"github.com/els0r/goProbe/v4/pkg/types"
	"github.com/els0r/telemetry/logging"
)

// ------------------------------------------------------------------ input

type tree struct {
	Op   string `json:"op"` // leaf not and or
	Attr string `json:"attr,omitempty"`
	Cmp  string `json:"cmp,omitempty"`
	Val  string `json:"val,omitempty"`
	L    *tree  `json:"l,omitempty"`
	R    *tree  `json:"r,omitempty"`
}

// one flow log key: indices into the address table, ports, protocol
type keySpec struct {
	Sip   int `json:"sip"`
	Dip   int `json:"dip"`
	Sport int `json:"sport"`
	Dport int `json:"dport"`
	Proto int `json:"proto"`
}

type step struct {
	Op   string     `json:"op"`          // pkt set rot live
	K    int        `json:"k,omitempty"` // index into Keys
	Out  bool       `json:"out,omitempty"`
	Size uint32     `json:"size,omitempty"`
	C    *[4]uint64 `json:"c,omitempty"`
	Sel  int        `json:"sel,omitempty"` // live: bit 0 time, 1 sip, 2 dip, 3 dport, 4 proto, 5 iface
	Cond *tree      `json:"cond,omitempty"`
}

type input struct {
	Addrs  []string  `json:"addrs"` // address table
	Keys   []keySpec `json:"keys"`
	PreDir bool      `json:"predir"` // the interface directory exists before the first write-out
	Steps  []step    `json:"steps"`
	Kind   string    `json:"kind"`
}

const iface = "eth0"
const baseTS = int64(1600000200)

func leaf(a, c, v string) *tree { return &tree{Op: "leaf", Attr: a, Cmp: c, Val: v} }
func not(x *tree) *tree         { return &tree{Op: "not", L: x} }
func and(l, r *tree) *tree      { return &tree{Op: "and", L: l, R: r} }
func or(l, r *tree) *tree       { return &tree{Op: "or", L: l, R: r} }

func (t *tree) text() string {
	switch t.Op {
	case "leaf":
		return t.Attr + " " + t.Cmp + " " + t.Val
	case "not":
		return "!(" + t.L.text() + ")"
	case "and":
		return "(" + t.L.text() + " & " + t.R.text() + ")"
	default:
		return "(" + t.L.text() + " | " + t.R.text() + ")"
	}
}

var attrCoq = map[string]string{"sip": "ASip", "dip": "ADip", "snet": "ASnet", "dnet": "ADnet", "dport": "ADport",
	"proto": "AProto", "src": "ASrc", "dst": "ADst", "host": "AHost", "net": "ANet", "port": "APort",
	"protocol": "AProtocol", "ipproto": "AIpproto"}
var cmpCoq = map[string]string{"=": "Eq", "!=": "Ne", "<": "Lt", ">": "Gt", "<=": "Le", ">=": "Ge"}

func attrKind(a string) string {
	switch a {
	case "sip", "dip", "src", "dst", "host":
		return "addr"
	case "snet", "dnet", "net":
		return "net"
	case "dport", "port":
		return "port"
	}
	return "proto"
}

func coqBytes(b []byte) string {
	xs := make([]string, len(b))
	for i, c := range b {
		xs[i] = strconv.Itoa(int(c))
	}
	return "[" + strings.Join(xs, ";") + "]"
}

// coqValue gives the parsed value the C09 model takes as input: the results of the library
// functions the implementation itself calls on the text (recorded, not modelled)
func coqValue(a, v string) (string, error) {
	switch attrKind(a) {
	case "addr":
		b, isv4, err := types.IPStringToBytes(v)
		if err != nil {
			return "", fmt.Errorf("value %q of %s is not an address literal", v, a)
		}
		return fmt.Sprintf("(VIP %s %s)", coqBytes(b), vhlib.CoqBool(isv4)), nil
	case "net":
		cidr := strings.Split(v, "/")
		if len(cidr) < 2 {
			return "VBad", nil
		}
		m, err := strconv.ParseInt(cidr[1], 10, 32)
		if err != nil {
			return "VBad", nil
		}
		b, _, err := types.IPStringToBytes(cidr[0])
		if err != nil {
			return "VBad", nil
		}
		ms := strconv.FormatInt(m, 10) + "%Z"
		if m < 0 {
			ms = "(" + strconv.FormatInt(m, 10) + ")%Z"
		}
		return fmt.Sprintf("(VNet %s %s %s)", coqBytes(b), vhlib.CoqBool(strings.Contains(cidr[0], ":")), ms), nil
	case "port":
		n, err := strconv.ParseUint(v, 10, 64)
		if err != nil {
			return "VBad", nil
		}
		return "(VPort " + strconv.FormatUint(n, 10) + ")", nil
	default:
		n, err := strconv.ParseUint(v, 10, 64)
		if err != nil {
			id, ok := protocols.GetIPProtoID(v)
			if !ok {
				return "VBad", nil
			}
			n = uint64(id)
		}
		return "(VProto " + strconv.FormatUint(n, 10) + ")", nil
	}
}

func (t *tree) coq() (string, error) {
	switch t.Op {
	case "leaf":
		v, err := coqValue(t.Attr, t.Val)
		if err != nil {
			return "", err
		}
		a, ok1 := attrCoq[t.Attr]
		c, ok2 := cmpCoq[t.Cmp]
		if !ok1 || !ok2 {
			return "", fmt.Errorf("bad leaf %v", *t)
		}
		return fmt.Sprintf("(Leaf %s %s %s)", a, c, v), nil
	case "not":
		x, err := t.L.coq()
		return "(Not " + x + ")", err
	}
	l, err := t.L.coq()
	if err != nil {
		return "", err
	}
	r, err := t.R.coq()
	if err != nil {
		return "", err
	}
	if t.Op == "and" {
		return "(And " + l + " " + r + ")", nil
	}
	return "(Or " + l + " " + r + ")", nil
}

// ------------------------------------------------------------------ keys, rows

func addrBytes(s string) []byte { return netip.MustParseAddr(s).AsSlice() }

func (in *input) keyBytes(k keySpec) ([]byte, error) {
	if k.Sip < 0 || k.Sip >= len(in.Addrs) || k.Dip < 0 || k.Dip >= len(in.Addrs) {
		return nil, fmt.Errorf("address index out of range")
	}
	s, d := addrBytes(in.Addrs[k.Sip]), addrBytes(in.Addrs[k.Dip])
	if len(s) != len(d) {
		return nil, fmt.Errorf("mixed families in one key")
	}
	out := append([]byte{}, s...)
	out = binary.BigEndian.AppendUint16(out, uint16(k.Sport))
	out = append(out, d...)
	out = binary.BigEndian.AppendUint16(out, uint16(k.Dport))
	return append(out, byte(k.Proto)), nil
}

// canonical row: timestamp (0 = none), address table index + 1 (0 = not set, 999 = unknown address)
type row struct {
	T, Sip, Dip, Dport, Proto int64
	C                         [4]uint64
}

func lessRow(a, b row) bool {
	ka := [5]int64{a.T, a.Sip, a.Dip, a.Dport, a.Proto}
	kb := [5]int64{b.T, b.Sip, b.Dip, b.Dport, b.Proto}
	for i := range ka {
		if ka[i] != kb[i] {
			return ka[i] < kb[i]
		}
	}
	for i := range a.C {
		if a.C[i] != b.C[i] {
			return a.C[i] < b.C[i]
		}
	}
	return false
}

type qres struct {
	Err    string    `json:"err,omitempty"`
	Rows   []row     `json:"rows"`
	Totals [4]uint64 `json:"totals"`
}

func selQuery(sel int) string {
	var as []string
	for i, n := range []string{"time", "sip", "dip", "dport", "proto", "iface"} {
		if sel&(1<<i) != 0 {
			as = append(as, n)
		}
	}
	return strings.Join(as, ",")
}

func (in *input) runQuery(env *capture.VerifC29Env, db string, sel int, cond *tree, live bool) *qres {
	res := &qres{}
	opts := []query.Option{query.WithNumResults(query.MaxResults), query.WithFormat(types.FormatJSON), query.WithFirst("1599000000")}
	if cond != nil {
		opts = append(opts, query.WithCondition(cond.text()))
	}
	if live {
		opts = append(opts, query.WithLive())
	}
	a := query.NewArgs(selQuery(sel), iface, opts...)
	panicked, msg := vhlib.Recover(func() {
		r, err := engine.NewQueryRunner(db, engine.WithLiveData(env.CM)).Run(context.Background(), a)
		if err != nil {
			res.Err = "error: " + err.Error()
			return
		}
		aIdx := map[string]int64{}
		for i, s := range in.Addrs {
			aIdx[netip.MustParseAddr(s).String()] = int64(i + 1)
		}
		idx := func(a netip.Addr) int64 {
			if !a.IsValid() {
				return 0
			}
			if i, ok := aIdx[a.String()]; ok {
				return i
			}
			return 999
		}
		for _, rw := range r.Rows {
			cr := row{Sip: idx(rw.Attributes.SrcIP), Dip: idx(rw.Attributes.DstIP), Dport: int64(rw.Attributes.DstPort), Proto: int64(rw.Attributes.IPProto)}
			if !rw.Labels.Timestamp.IsZero() {
				cr.T = rw.Labels.Timestamp.Unix()
			}
			if rw.Labels.Iface != iface {
				cr.T = 1 // never a block timestamp
			}
			cr.C = [4]uint64{rw.Counters.BytesRcvd, rw.Counters.BytesSent, rw.Counters.PacketsRcvd, rw.Counters.PacketsSent}
			res.Rows = append(res.Rows, cr)
		}
		sort.Slice(res.Rows, func(i, j int) bool { return lessRow(res.Rows[i], res.Rows[j]) })
		t := r.Summary.Totals
		res.Totals = [4]uint64{t.BytesRcvd, t.BytesSent, t.PacketsRcvd, t.PacketsSent}
	})
	if panicked {
		res.Err = "panic: " + msg
	}
	return res
}

// flow log dump: key table index (999 = not in the table) and counters, sorted
type logEntry struct {
	K int       `json:"k"`
	C [4]uint64 `json:"c"`
}

func (in *input) dumpLog(env *capture.VerifC29Env) ([]logEntry, error) {
	fl, err := env.FlowLog(iface)
	if err != nil {
		return nil, err
	}
	var out []logEntry
	for _, f := range fl {
		e := logEntry{K: 999, C: f.C}
		for i, k := range in.Keys {
			kb, _ := in.keyBytes(k)
			if string(kb) == string(f.Key) {
				e.K = i
				break
			}
		}
		out = append(out, e)
	}
	sort.Slice(out, func(i, j int) bool { return out[i].K < out[j].K })
	return out, nil
}

// ------------------------------------------------------------------ running a history

type liveObs struct {
	Stored *qres      `json:"stored"` // the same query on stored data only, immediately before
	Live   *qres      `json:"live"`
	Before []logEntry `json:"before"`
	After  []logEntry `json:"after"`
}

type observed struct {
	Lives   []liveObs `json:"lives"`
	DB      *qres     `json:"db"`      // whole DB after the final write-out, history with live queries
	DBPlain *qres     `json:"dbplain"` // the same, history without its live queries
}

var runCount int

func (in *input) history(work string, withLive bool) ([]liveObs, *qres, error) {
	runCount++
	db := filepath.Join(work, fmt.Sprintf("c29db-%d-%d", os.Getpid(), runCount))
	_ = os.RemoveAll(db)
	if err := os.MkdirAll(db, 0o755); err != nil {
		return nil, nil, err
	}
	defer os.RemoveAll(db)
	if in.PreDir {
		if err := os.MkdirAll(filepath.Join(db, iface), 0o755); err != nil {
			return nil, nil, err
		}
	}
	env, err := capture.VerifC29NewManager(db, []string{iface})
	if err != nil {
		return nil, nil, err
	}
	closed := false
	defer func() {
		if !closed {
			env.Close()
		}
	}()
	ts := baseTS
	var lives []liveObs
	for _, st := range in.Steps {
		switch st.Op {
		case "pkt", "set":
			kb, err := in.keyBytes(in.Keys[st.K])
			if err != nil {
				return nil, nil, err
			}
			op := capture.VerifC29Op{Key: kb, Set: st.Op == "set", Outgoing: st.Out, Size: st.Size}
			if st.C != nil {
				op.C = *st.C
			}
			if err := env.Apply(iface, []capture.VerifC29Op{op}); err != nil {
				return nil, nil, err
			}
		case "rot":
			env.Writeout(ts)
			ts += 300
		case "live":
			if !withLive {
				continue
			}
			var lo liveObs
			if lo.Before, err = in.dumpLog(env); err != nil {
				return nil, nil, err
			}
			lo.Stored = in.runQuery(env, db, st.Sel, st.Cond, false)
			lo.Live = in.runQuery(env, db, st.Sel, st.Cond, true)
			if lo.After, err = in.dumpLog(env); err != nil {
				return nil, nil, err
			}
			lives = append(lives, lo)
		default:
			return nil, nil, fmt.Errorf("unknown step %q", st.Op)
		}
	}
	env.Writeout(ts)
	dbq := in.runQuery(env, db, 31, nil, false)
	return lives, dbq, nil
}

// ------------------------------------------------------------------ Coq printing

func coqC(c [4]uint64) string {
	return "(" + strconv.FormatUint(c[0], 10) + "," + strconv.FormatUint(c[1], 10) + "," + strconv.FormatUint(c[2], 10) + "," + strconv.FormatUint(c[3], 10) + ")"
}

func coqRows(rs []row) string {
	xs := make([]string, len(rs))
	for i, r := range rs {
		xs[i] = fmt.Sprintf("((%d,%d,%d,%d,%d),%s)", r.T, r.Sip, r.Dip, r.Dport, r.Proto, coqC(r.C))
	}
	return "[" + strings.Join(xs, ";") + "]"
}

func coqLog(l []logEntry) string {
	xs := make([]string, len(l))
	for i, e := range l {
		xs[i] = fmt.Sprintf("(%d,%s)", e.K, coqC(e.C))
	}
	return "[" + strings.Join(xs, ";") + "]"
}

func coqQres(q *qres) string {
	if q.Err != "" {
		if strings.HasPrefix(q.Err, "panic") {
			return "QPanic"
		}
		return "QErr"
	}
	return "(QOk " + coqRows(q.Rows) + " " + coqC(q.Totals) + ")"
}

func run(raw json.RawMessage, o vhlib.Opts) (*vhlib.Case, error) {
	var in input
	if err := json.Unmarshal(raw, &in); err != nil {
		return nil, err
	}
	lives, dbq, err := in.history(o.Work, true)
	if err != nil {
		return nil, err
	}
	_, dbPlain, err := in.history(o.Work, false)
	if err != nil {
		return nil, err
	}
	obs := observed{Lives: lives, DB: dbq, DBPlain: dbPlain}

	var addrs, keys, steps []string
	for _, a := range in.Addrs {
		addrs = append(addrs, coqBytes(addrBytes(a)))
	}
	for _, k := range in.Keys {
		keys = append(keys, fmt.Sprintf("(%d,%d,%d,%d,%d)", k.Sip, k.Sport, k.Dip, k.Dport, k.Proto))
	}
	tags := []string{"kind:" + in.Kind, "predir:" + vhlib.CoqBool(in.PreDir)}
	li := 0
	nLive, nRot, nonEmpty, merged, grouped, idle, withStored, v4, v6 := 0, 0, 0, 0, 0, 0, 0, 0, 0
	for _, k := range in.Keys {
		if len(addrBytes(in.Addrs[k.Sip])) == 4 {
			v4++
		} else {
			v6++
		}
	}
	for _, st := range in.Steps {
		switch st.Op {
		case "pkt":
			steps = append(steps, fmt.Sprintf("(SPkt %d %s %d)", st.K, vhlib.CoqBool(st.Out), st.Size))
		case "set":
			c := [4]uint64{}
			if st.C != nil {
				c = *st.C
			}
			steps = append(steps, fmt.Sprintf("(SSet %d %s)", st.K, coqC(c)))
		case "rot":
			nRot++
			steps = append(steps, "SRot")
		case "live":
			nLive++
			cond := "None"
			if st.Cond != nil {
				c, err := st.Cond.coq()
				if err != nil {
					return nil, err
				}
				cond = "(Some " + c + ")"
			}
			lo := lives[li]
			li++
			steps = append(steps, fmt.Sprintf("(SLive %d %s %s %s %s %s)", st.Sel, cond, coqQres(lo.Stored), coqQres(lo.Live), coqLog(lo.Before), coqLog(lo.After)))
			tags = append(tags, "sel:"+selQuery(st.Sel))
			if st.Cond == nil {
				tags = append(tags, "cond:none")
			} else {
				tags = append(tags, "cond:"+st.Cond.Op)
			}
			if lo.Live.Err != "" {
				tags = append(tags, "live:"+strings.SplitN(lo.Live.Err, ":", 2)[0])
			}
			active := 0
			for _, e := range lo.Before {
				if e.C[2] != 0 || e.C[3] != 0 {
					active++
				} else {
					idle++
				}
			}
			if len(lo.Live.Rows) > 0 {
				nonEmpty++
			}
			if len(lo.Stored.Rows) > 0 {
				withStored++
			}
			if len(lo.Live.Rows) < active+len(lo.Stored.Rows) && len(lo.Live.Rows) > 0 {
				grouped++
			}
			if len(lo.Stored.Rows) > 0 && len(lo.Live.Rows) > len(lo.Stored.Rows) {
				merged++
			}
		}
	}
	tags = append(tags, fmt.Sprintf("lives:%d", nLive), fmt.Sprintf("rots:%d", nRot))
	if idle > 0 {
		tags = append(tags, "idle-entries")
	}
	if grouped > 0 {
		tags = append(tags, "grouping")
	}
	if withStored > 0 {
		tags = append(tags, "stored+live")
	}
	if v4 > 0 && v6 > 0 {
		tags = append(tags, "v4+v6")
	}
	_ = merged
	coq := fmt.Sprintf("(mkCase %s %s %s %s %s)", vhlib.CoqList(addrs), vhlib.CoqList(keys), vhlib.CoqList(steps), coqQres(dbq), coqQres(dbPlain))
	return &vhlib.Case{Observed: obs, Tags: tags, Nontrivial: nLive > 0 && nonEmpty > 0 && (grouped > 0 || idle > 0 || withStored > 0), Coq: coq}, nil
}

// ------------------------------------------------------------------ generation

var v4pool = []string{"10.0.0.1", "10.0.0.0", "10.0.0.2", "10.200.0.1", "192.168.1.129", "255.255.255.255", "1.2.3.4", "32.1.13.184"}
var v6pool = []string{"2001:db8::1", "2001:db8::2", "a00::1", "102:304::5", "fe80::aa55:aa55:1", "2001:db8:8000::ff", "ffff:ffff:ffff:ffff:ffff:ffff:ffff:ffff"}
var portPool = []int{0, 53, 80, 443, 8080, 65535, 22, 40000}
var protoPool = []int{6, 17, 1, 58, 0, 255}
var bigs = []uint64{1, 2, 1500, 65536, 1 << 32, 1<<63 - 1, 1 << 63, ^uint64(0), ^uint64(0) - 5}

func pkt(k int, out bool, size uint32) step { return step{Op: "pkt", K: k, Out: out, Size: size} }
func set(k int, c [4]uint64) step           { return step{Op: "set", K: k, C: &c} }
func rot() step                             { return step{Op: "rot"} }
func live(sel int, c *tree) step            { return step{Op: "live", Sel: sel, Cond: c} }

const (
	sTime  = 1
	sSip   = 2
	sDip   = 4
	sDport = 8
	sProto = 16
	sAll   = 30
)

func fixedCases() []input {
	a := []string{"10.0.0.1", "10.0.0.0", "10.0.0.9", "10.0.0.8", "2001:db8::1", "2001:db8::2"}
	keys := []keySpec{
		{0, 2, 40000, 443, 6}, // 10.0.0.1 -> 10.0.0.9:443 tcp
		{0, 2, 40001, 443, 6}, // same conversation partners, other source port
		{0, 3, 0, 53, 17},     // 10.0.0.1 -> 10.0.0.8:53 udp
		{1, 3, 0, 53, 17},     // 10.0.0.0 -> 10.0.0.8:53 udp
		{4, 5, 0, 53, 17},     // v6 -> :53 udp
		{4, 5, 50000, 443, 6}, // v6 tcp
		{5, 4, 50000, 443, 6}, // v6 reverse partners
	}
	traffic := []step{pkt(0, false, 100), pkt(1, true, 50), pkt(2, false, 60), pkt(3, false, 70), pkt(4, true, 80), pkt(5, false, 90), pkt(5, true, 95), pkt(6, false, 30)}
	with := func(kind string, predir bool, steps ...step) input {
		return input{Addrs: a, Keys: keys, PreDir: predir, Steps: steps, Kind: kind}
	}
	cat := func(xs ...[]step) []step {
		var out []step
		for _, x := range xs {
			out = append(out, x...)
		}
		return out
	}
	var cs []input
	// the suspected defects, one by one
	cs = append(cs, with("fixed", true, cat(traffic, []step{live(sSip, nil)})...))                                                // two flows of one sip
	cs = append(cs, with("fixed", false, cat(traffic, []step{live(sSip, nil), live(sAll, nil)})...))                              // no interface directory yet
	cs = append(cs, with("fixed", true, cat(traffic, []step{live(sAll, leaf("snet", "=", "10.0.0.0/31"))})...))                   // key mutation (C09)
	cs = append(cs, with("fixed", true, cat(traffic, []step{live(sSip|sDip, leaf("snet", "=", "10.0.0.0/31"))})...))              //
	cs = append(cs, with("fixed", true, cat(traffic, []step{live(sDport, nil), live(sProto, nil), live(sDport|sProto, nil)})...)) // v4 and v6 share rows
	cs = append(cs, with("fixed", true, cat(traffic, []step{live(sDip, nil), live(sSip|sDport, nil)})...))
	// live + stored: merged per group
	cs = append(cs, with("fixed", true, cat(traffic, []step{rot()}, traffic[:3], []step{live(sSip, nil), live(sAll, nil), live(sDport, nil)})...))
	cs = append(cs, with("fixed", false, cat(traffic, []step{rot()}, traffic[2:6], []step{live(sTime|sSip, nil), live(sTime, nil)})...))
	// idle entries after a write-out, removed after the second one
	cs = append(cs, with("fixed", true, cat(traffic, []step{rot(), live(sAll, nil), pkt(0, false, 10), live(sAll, nil), rot(), live(sAll, nil), rot(), live(sSip, nil)})...))
	// only outgoing / only incoming packets are not idle
	cs = append(cs, with("fixed", true, set(0, [4]uint64{0, 7, 0, 1}), set(2, [4]uint64{7, 0, 1, 0}), set(3, [4]uint64{9, 9, 0, 0}), live(sAll, nil), live(sSip, nil)))
	// counters wrap modulo 2^64 when grouped
	cs = append(cs, with("fixed", true, set(0, [4]uint64{^uint64(0), 1 << 63, ^uint64(0), 1}), set(1, [4]uint64{2, 1 << 63, 1, 1}), set(2, [4]uint64{5, 5, 5, 5}), live(sSip, nil), live(sAll, nil)))
	// empty flow log, no rows, invalid condition
	cs = append(cs, with("fixed", true, live(sSip, nil)))
	cs = append(cs, with("fixed", false, live(sAll, nil)))
	cs = append(cs, with("fixed", true, cat(traffic, []step{live(sSip, leaf("dport", "=", "1")), live(sSip, leaf("snet", "=", "10.0.0.0/33")), live(sAll, leaf("sip", "<", "10.0.0.1"))})...))
	// conditions on attributes that are not selected, both families
	cs = append(cs, with("fixed", true, cat(traffic, []step{live(sSip, leaf("dport", "=", "53")), live(sDport, and(leaf("proto", "=", "17"), not(leaf("sip", "=", "10.0.0.0")))), live(sProto, leaf("host", "=", "2001:db8::1")), live(sSip, leaf("net", "!=", "10.0.0.0/31"))})...))
	cs = append(cs, with("fixed", true, cat(traffic, []step{live(sDip|sProto, or(leaf("dnet", "=", "2001:db8::/64"), leaf("dip", "=", "10.0.0.8"))), live(sAll, leaf("port", ">=", "443"))})...))
	// groups of flows that differ in exactly ONE key field (sip, dip, dport, proto 6 vs 17, source port),
	// IPv4 and IPv6, held in memory AND stored (a write-out in between); every one of the 16 subsets of
	// {sip,dip,dport,proto} is queried without a condition, with a condition, and with time / iface
	ob := []string{"10.0.0.1", "10.0.0.2", "10.0.0.9", "10.0.0.8", "2001:db8::1", "2001:db8::2", "2001:db8::3"}
	ok := []keySpec{
		{0, 2, 0, 53, 17},     // base
		{1, 2, 0, 53, 17},     // other sip
		{0, 3, 0, 53, 17},     // other dip
		{0, 2, 0, 443, 17},    // other dport
		{0, 2, 0, 53, 6},      // other proto
		{0, 2, 40000, 53, 17}, // other source port only
		{4, 5, 0, 53, 17},     // IPv6 base
		{4, 5, 0, 53, 6},      // IPv6 other proto
		{4, 6, 0, 53, 17},     // IPv6 other dip
	}
	var all []step
	for k := range ok {
		all = append(all, pkt(k, k%2 == 0, uint32(100+k)))
	}
	again := []step{pkt(0, false, 11), pkt(4, true, 13), pkt(5, false, 17), pkt(7, true, 19), pkt(3, false, 23)}
	conds := []*tree{leaf("dport", "<=", "443"), not(leaf("sip", "=", "10.0.0.2")), or(leaf("proto", "=", "17"), leaf("net", "=", "2001:db8::/64")), leaf("dip", "!=", "10.0.0.8")}
	for variant := 0; variant < 3; variant++ {
		for g := 0; g < 4; g++ {
			var lives []step
			for j := 0; j < 4; j++ {
				sel := (g*4 + j) << 1 // bits 1..4
				var c *tree
				switch variant {
				case 1:
					c = conds[j]
				case 2:
					if j%2 == 0 {
						sel |= sTime
					} else {
						sel |= 32 | sTime
					}
				}
				if sel == 0 {
					sel = sTime
				}
				lives = append(lives, live(sel, c))
			}
			cs = append(cs, input{Addrs: ob, Keys: ok, PreDir: g%2 == 0, Kind: "oneoff",
				Steps: cat(all, lives[:2], []step{rot()}, again, lives)})
		}
	}
	return cs
}

var fixed = fixedCases()

func genLeaf(r *vhlib.Rand, addrs []string) *tree {
	a := vhlib.Pick(r, addrs)
	is6 := strings.Contains(a, ":")
	switch r.Intn(9) {
	case 0:
		return leaf(vhlib.Pick(r, []string{"sip", "dip", "src", "dst", "host"}), vhlib.Pick(r, []string{"=", "!="}), a)
	case 1, 2:
		m := vhlib.Pick(r, []int{0, 7, 8, 9, 24, 30, 31, 32})
		if is6 {
			m = vhlib.Pick(r, []int{0, 8, 33, 64, 100, 127, 128})
		}
		return leaf(vhlib.Pick(r, []string{"snet", "dnet", "net"}), vhlib.Pick(r, []string{"=", "!="}), fmt.Sprintf("%s/%d", a, m))
	case 3, 4:
		return leaf(vhlib.Pick(r, []string{"dport", "port"}), vhlib.Pick(r, []string{"=", "!=", "<", ">", "<=", ">="}), strconv.Itoa(vhlib.Pick(r, portPool)))
	case 5, 6:
		return leaf(vhlib.Pick(r, []string{"proto", "protocol", "ipproto"}), vhlib.Pick(r, []string{"=", "!=", "<", ">", "<=", ">="}), strconv.Itoa(vhlib.Pick(r, protoPool)))
	case 7:
		return leaf("sip", "=", a)
	}
	return leaf("dip", "!=", a)
}

func genTree(r *vhlib.Rand, depth int, addrs []string) *tree {
	if depth == 0 || r.Chance(35) {
		return genLeaf(r, addrs)
	}
	switch r.Intn(3) {
	case 0:
		return not(genTree(r, depth-1, addrs))
	case 1:
		return and(genTree(r, depth-1, addrs), genTree(r, depth-1, addrs))
	}
	return or(genTree(r, depth-1, addrs), genTree(r, depth-1, addrs))
}

func gen(r *vhlib.Rand, i int, o vhlib.Opts) any {
	if i < len(fixed) {
		return fixed[i]
	}
	in := input{Kind: "random", PreDir: r.Chance(70)}
	// address table: few addresses so that flows share sip / dip
	n4, n6 := 1+r.Intn(3), r.Intn(3)
	if r.Chance(15) {
		n4, n6 = 0, 1+r.Intn(3)
	}
	perm4, perm6 := r.Intn(len(v4pool)), r.Intn(len(v6pool))
	for j := 0; j < n4; j++ {
		in.Addrs = append(in.Addrs, v4pool[(perm4+j)%len(v4pool)])
	}
	for j := 0; j < n6; j++ {
		in.Addrs = append(in.Addrs, v6pool[(perm6+j)%len(v6pool)])
	}
	nk := 2 + r.Intn(5)
	if o.Search {
		nk = 3 + r.Intn(7)
	}
	ports := []int{vhlib.Pick(r, portPool), vhlib.Pick(r, portPool)}
	protos := []int{vhlib.Pick(r, protoPool), vhlib.Pick(r, protoPool)}
	seen := map[keySpec]bool{}
	for j := 0; j < nk; j++ {
		var k keySpec
		variant := len(in.Keys) > 0 && r.Chance(55)
		if variant {
			// a variant of an existing flow differing in exactly one field
			k = vhlib.Pick(r, in.Keys)
			fam := func(i int) int { // another address of the same family
				if i < n4 {
					return r.Intn(n4)
				}
				return n4 + r.Intn(n6)
			}
			switch r.Intn(5) {
			case 0:
				k.Sip = fam(k.Sip)
			case 1:
				k.Dip = fam(k.Dip)
			case 2:
				k.Dport = vhlib.Pick(r, []int{53, 443, ports[0], ports[1]})
			case 3:
				k.Proto = map[int]int{6: 17, 17: 6}[k.Proto]
				if k.Proto == 0 {
					k.Proto = vhlib.Pick(r, []int{6, 17})
				}
			default:
				k.Sport = vhlib.Pick(r, []int{0, 40000, 40001})
			}
		} else if n6 > 0 && (n4 == 0 || r.Chance(35)) {
			k.Sip, k.Dip = n4+r.Intn(n6), n4+r.Intn(n6)
		} else {
			k.Sip, k.Dip = r.Intn(n4), r.Intn(n4)
		}
		if !variant {
			k.Sport = vhlib.Pick(r, []int{0, 0, 40000, 40001})
			k.Dport, k.Proto = vhlib.Pick(r, ports), vhlib.Pick(r, protos)
		}
		if seen[k] {
			continue
		}
		seen[k] = true
		in.Keys = append(in.Keys, k)
	}
	ns := 4 + r.Intn(8)
	nlive := 0
	for j := 0; j < ns; j++ {
		switch x := r.Intn(100); {
		case x < 50:
			in.Steps = append(in.Steps, pkt(r.Intn(len(in.Keys)), r.Bool(), uint32(40+r.Intn(1460))))
		case x < 58:
			var c [4]uint64
			for q := range c {
				switch r.Intn(4) {
				case 0:
					c[q] = 0
				case 1:
					c[q] = vhlib.Pick(r, bigs)
				default:
					c[q] = uint64(1 + r.Intn(3000))
				}
			}
			in.Steps = append(in.Steps, set(r.Intn(len(in.Keys)), c))
		case x < 72:
			in.Steps = append(in.Steps, rot())
		default:
			if nlive >= 3 {
				continue
			}
			nlive++
			sel := r.Intn(16) << 1 // every subset of {sip,dip,dport,proto}
			if r.Chance(25) {
				sel |= sTime
			}
			if sel == 0 {
				sel = sTime
			}
			if r.Chance(15) {
				sel |= 32 // iface
			}
			var c *tree
			if r.Chance(50) {
				c = genTree(r, 2, in.Addrs)
			}
			in.Steps = append(in.Steps, live(sel, c))
		}
	}
	if nlive == 0 {
		in.Steps = append(in.Steps, live(vhlib.Pick(r, []int{sSip, sDport, sAll, sDip | sProto}), nil))
	}
	return in
}

func main() {
	// the capture manager and the engine log through the global logger: keep the run quiet
	_, _ = logging.Init(logging.LevelError, logging.EncodingLogfmt, logging.WithOutput(os.Stderr), logging.WithErrorOutput(os.Stderr))
	vhlib.Main(gen, run)
}
