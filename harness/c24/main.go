// C24 correspondence harness: the real goDB.MergeDatabases on generated source / destination
// databases written with the real DBWriter (gpfile writer for empty days).  Source and destination
// trees are read back through the real gpfile reader before the merge, after it, and after merging
// the same source a second time; a block is reported as (timestamp, content id), where the content
// id stands for the hash of all column bytes + the per-block traffic metadata.
package main

import (
	"context"
	"crypto/sha256"
	"encoding/binary"
	"encoding/json"
	"fmt"
	"os"
	"path/filepath"
	"sort"
	"strconv"
	"strings"
	"time"

	"verifharness/vhlib"

	"github.com/els0r/goProbe/v4/pkg/capture/capturetypes"
	"github.com/els0r/goProbe/v4/pkg/goDB"
	"github.com/els0r/goProbe/v4/pkg/goDB/encoder/encoders"
	"github.com/els0r/goProbe/v4/pkg/goDB/storage/gpfile"
	"github.com/els0r/goProbe/v4/pkg/types"
	"github.com/els0r/goProbe/v4/pkg/types/hashmap"
	"github.com/fako1024/gotools/bitpack"
)

const dayBase = int64(1704844800) // 2024-01-10 00:00:00 UTC
const epochDay = int64(86400)

type blockIn struct {
	Off int64 `json:"o"` // seconds after the start of the day
	C   int   `json:"c"` // content seed: base + 100*variant (base 0 = idle block: no flows, no drops)
}
type dayIn struct {
	Day    int       `json:"d"` // day index relative to dayBase
	Blocks []blockIn `json:"b"` // strictly increasing offsets; empty = day directory without blocks
}
type ifaceIn struct {
	Name string  `json:"n"`
	Days []dayIn `json:"days"`
}
type input struct {
	Ifaces    []string  `json:"ifaces"`
	Overwrite bool      `json:"ow"`
	Dry       bool      `json:"dry"`
	TolNs     int64     `json:"tol"`
	Src       []ifaceIn `json:"src"`
	Dst       []ifaceIn `json:"dst"`
	Enc       int       `json:"enc"` // encoder used to write the generated DBs
}

// ---------------------------------------------------------------- generation

var tolChoices = []int64{0, -5, 1, 999999999, 1000000000, 1500000000, 150e9, 300e9, 301e9, 3600e9, 86400e9}
var ifaceNames = []string{"eth0", "eth1", "t4", "wlan0"}

func tolSeconds(ns int64) int64 {
	if ns <= 0 {
		return 300
	}
	return ns / 1e9
}

func clamp(v, lo, hi int64) int64 {
	if v < lo {
		return lo
	}
	if v > hi {
		return hi
	}
	return v
}

// pool of candidate block offsets of one day: start and end candidates sit on the completeness boundary
func genPool(r *vhlib.Rand, tol int64) []int64 {
	set := map[int64]bool{}
	start := vhlib.Pick(r, []int64{0, 0, tol - 1, tol, tol + 1, 300, 7200})
	set[clamp(start, 0, 40000)] = true
	if r.Chance(40) {
		set[clamp(start+vhlib.Pick(r, []int64{1, 300, 301}), 0, 40001)] = true
	}
	for k := r.Intn(3); k > 0; k-- {
		set[41000+int64(r.Intn(20))*300] = true
	}
	dur := vhlib.Pick(r, []int64{300, 300, 1, 60, 299})
	// last + dur >= 86399 - tol  <=>  last >= 86399 - tol - dur
	last := 86399 - tol - dur + vhlib.Pick(r, []int64{-1, 0, 0, 1, 5})
	last = clamp(last, 50000, 86399)
	set[last] = true
	set[clamp(last-dur, 49000, 86398)] = true
	if r.Chance(30) {
		set[clamp(last+vhlib.Pick(r, []int64{1, 300}), 50001, 86399)] = true
	}
	var pool []int64
	for k := range set {
		pool = append(pool, k)
	}
	sort.Slice(pool, func(i, j int) bool { return pool[i] < pool[j] })
	return pool
}

func genDay(r *vhlib.Rand, d int, pool []int64) *dayIn {
	mode := r.Intn(100)
	out := &dayIn{Day: d}
	switch {
	case mode < 12:
		return nil // day missing
	case mode < 16:
		return out // day directory without blocks
	case mode < 45:
		for _, o := range pool { // everything: usually complete
			out.Blocks = append(out.Blocks, blockIn{Off: o, C: r.Intn(7)})
		}
	case mode < 55:
		out.Blocks = append(out.Blocks, blockIn{Off: vhlib.Pick(r, pool), C: 1 + r.Intn(6)}) // lone block
	default:
		for _, o := range pool {
			if r.Chance(60) {
				out.Blocks = append(out.Blocks, blockIn{Off: o, C: r.Intn(7)})
			}
		}
	}
	return out
}

func sortBlocks(b []blockIn) []blockIn {
	sort.Slice(b, func(i, j int) bool { return b[i].Off < b[j].Off })
	return b
}

// twinOf derives a day with the SAME per-day totals as d (flow counts, drops, bytes, packets - hence the
// same directory name suffix) but different content: other flow keys, contents moved between blocks,
// other block timestamps, idle blocks on one side only
func twinOf(r *vhlib.Rand, d dayIn, pool []int64) dayIn {
	out := dayIn{Day: d.Day, Blocks: append([]blockIn(nil), d.Blocks...)}
	n := len(out.Blocks)
	used := map[int64]bool{}
	for _, b := range out.Blocks {
		used[b.Off] = true
	}
	addIdle := func() {
		for _, o := range pool {
			if !used[o] && r.Chance(70) {
				out.Blocks = append(out.Blocks, blockIn{Off: o})
				used[o] = true
			}
		}
		for _, o := range []int64{1, 599, 43199, 86398} { // make sure at least something is added
			if !used[o] && (r.Chance(40) || len(out.Blocks) == n) {
				out.Blocks = append(out.Blocks, blockIn{Off: o})
				used[o] = true
			}
		}
	}
	switch r.Intn(6) {
	case 0: // same timestamps, other flow keys
		for i := range out.Blocks {
			if out.Blocks[i].C%100 != 0 {
				out.Blocks[i].C += 100 * (1 + r.Intn(2))
			}
		}
	case 1: // contents rotated over the same timestamps
		for i := range out.Blocks {
			out.Blocks[i].C = d.Blocks[(i+1)%n].C
		}
	case 2: // idle blocks only this side has
		addIdle()
	case 3: // a subset of the blocks is idle-only on the other side: drop idle ones here, add others
		var keep []blockIn
		for _, b := range out.Blocks {
			if b.C%100 != 0 || r.Bool() {
				keep = append(keep, b)
			}
		}
		out.Blocks = keep
		addIdle()
	case 4: // same contents, every timestamp moved by one second
		if n > 0 && out.Blocks[n-1].Off < 86399 {
			for i := range out.Blocks {
				out.Blocks[i].Off++
			}
		} else if n > 0 && out.Blocks[0].Off > 0 {
			for i := range out.Blocks {
				out.Blocks[i].Off--
			}
		}
	case 5: // other flow keys AND idle extras
		for i := range out.Blocks {
			if out.Blocks[i].C%100 != 0 {
				out.Blocks[i].C += 100
			}
		}
		addIdle()
	}
	out.Blocks = sortBlocks(out.Blocks)
	return out
}

func genRandom(r *vhlib.Rand, o vhlib.Opts) input {
	in := input{Overwrite: r.Bool(), Dry: r.Chance(25), TolNs: vhlib.Pick(r, tolChoices), Enc: r.Intn(2)}
	tol := tolSeconds(in.TolNs)
	nIf := 1 + r.Intn(2)
	nDay := 1 + r.Intn(2)
	if o.Search {
		nIf, nDay = 1+r.Intn(3), 1+r.Intn(3)
	}
	names := append([]string(nil), ifaceNames...)
	for i := range names { // shuffle
		j := i + r.Intn(len(names)-i)
		names[i], names[j] = names[j], names[i]
	}
	for k := 0; k < nIf; k++ {
		s := ifaceIn{Name: names[k]}
		d := ifaceIn{Name: names[k]}
		for day := 0; day < nDay; day++ {
			pool := genPool(r, tol)
			if r.Chance(35) { // equal totals, different content
				if x := genDay(r, day, pool); x != nil && len(x.Blocks) > 0 {
					y := twinOf(r, *x, pool)
					if r.Bool() {
						*x, y = y, *x
					}
					s.Days = append(s.Days, *x)
					d.Days = append(d.Days, y)
					continue
				}
			}
			if x := genDay(r, day, pool); x != nil {
				s.Days = append(s.Days, *x)
			}
			if r.Chance(75) {
				if x := genDay(r, day, pool); x != nil {
					d.Days = append(d.Days, *x)
				}
			}
		}
		if len(s.Days) > 0 || r.Chance(50) {
			in.Src = append(in.Src, s)
		}
		if len(d.Days) > 0 {
			in.Dst = append(in.Dst, d)
		}
	}
	if r.Chance(15) { // an interface that only the destination has
		in.Dst = append(in.Dst, ifaceIn{Name: names[3], Days: []dayIn{{Day: 0, Blocks: []blockIn{{Off: 600, C: 3}}}}})
	}
	switch r.Intn(10) {
	case 0, 1:
		if len(in.Src) > 0 {
			in.Ifaces = []string{in.Src[r.Intn(len(in.Src))].Name}
		}
	case 2:
		for _, s := range in.Src {
			in.Ifaces = append(in.Ifaces, vhlib.Pick(r, []string{" ", "\t", ""})+s.Name+vhlib.Pick(r, []string{"", " ", "\n"}))
		}
		if len(in.Src) > 0 {
			in.Ifaces = append(in.Ifaces, in.Src[0].Name, "")
		}
	case 3:
		in.Ifaces = []string{vhlib.Pick(r, []string{"nope", "eth", "eth00", names[3]})}
		if len(in.Src) > 0 && r.Bool() {
			in.Ifaces = append([]string{in.Src[0].Name}, in.Ifaces...)
		}
	case 4:
		in.Ifaces = []string{vhlib.Pick(r, []string{"", "  "})}
	}
	return in
}

func blocks(offC ...int64) []blockIn {
	var out []blockIn
	for i := 0; i+1 < len(offC); i += 2 {
		out = append(out, blockIn{Off: offC[i], C: int(offC[i+1])})
	}
	return out
}

// hand-picked boundary cases: the whole plan matrix with overlapping blocks, then selection and tolerance edges
func fixedCases() []input {
	var out []input
	complete := blocks(0, 1, 300, 2, 43200, 3, 85800, 4, 86100, 5)
	completeB := blocks(300, 6, 600, 2, 43200, 1, 86100, 3) // complete with 300 s tolerance, other contents
	partial := blocks(300, 1, 600, 2, 43200, 4)
	partialB := blocks(600, 5, 900, 6, 43200, 3, 50000, 0)
	for _, ow := range []bool{false, true} {
		for _, dry := range []bool{false, true} {
			for _, s := range [][]blockIn{complete, partial} {
				for _, d := range [][]blockIn{nil, completeB, partialB} {
					in := input{Overwrite: ow, Dry: dry, TolNs: 300e9,
						Src: []ifaceIn{{Name: "eth0", Days: []dayIn{{Day: 0, Blocks: s}}}}}
					if d != nil {
						in.Dst = []ifaceIn{{Name: "eth0", Days: []dayIn{{Day: 0, Blocks: d}}}}
					}
					out = append(out, in)
				}
			}
		}
	}
	// equal per-day totals (= equal directory name suffix), different content
	completeV := blocks(0, 101, 300, 102, 43200, 103, 85800, 104, 86100, 105) // other flow keys
	completeR := blocks(0, 2, 300, 3, 43200, 4, 85800, 5, 86100, 1)           // contents rotated
	partialR := blocks(300, 2, 600, 4, 43200, 1)                              // contents rotated
	partialT := blocks(301, 1, 601, 2, 43201, 4)                              // timestamps moved
	partialI := blocks(0, 0, 300, 1, 600, 2, 900, 0, 43200, 4, 50000, 0)      // + idle blocks
	completeI := blocks(0, 0, 300, 1, 600, 2, 43200, 4, 85800, 0, 86100, 0)   // idle blocks make it complete
	for _, ow := range []bool{false, true} {
		for _, dry := range []bool{false, true} {
			for _, sd := range [][2][]blockIn{{completeV, complete}, {completeR, complete}, {partialR, partial},
				{partialT, partial}, {partialI, partial}, {partial, partialI}, {completeI, partial}, {partial, completeI}} {
				out = append(out, input{Overwrite: ow, Dry: dry, TolNs: 300e9,
					Src: []ifaceIn{{Name: "eth0", Days: []dayIn{{Day: 0, Blocks: sd[0]}}}},
					Dst: []ifaceIn{{Name: "eth0", Days: []dayIn{{Day: 0, Blocks: sd[1]}}}}})
			}
		}
	}
	two := []ifaceIn{{Name: "eth0", Days: []dayIn{{Day: 0, Blocks: complete}, {Day: 1, Blocks: partial}}},
		{Name: "eth1", Days: []dayIn{{Day: 0, Blocks: partialB}}}, {Name: "t4"}}
	dst := []ifaceIn{{Name: "eth0", Days: []dayIn{{Day: 1, Blocks: partialB}, {Day: 2, Blocks: partial}}},
		{Name: "wlan0", Days: []dayIn{{Day: 0, Blocks: partial}}}}
	for _, ifs := range [][]string{nil, {"eth1"}, {"eth0", "eth0"}, {" eth1 ", "eth0"}, {"t4"}, {""}, {"eth1", "nope"},
		{"wlan0"}, {"eth1", ""}, {"\teth0\n"}} {
		for _, ow := range []bool{false, true} {
			out = append(out, input{Ifaces: ifs, Overwrite: ow, TolNs: 150e9, Src: two, Dst: dst})
		}
	}
	// tolerance boundaries: first block at start+tol (+1), last+dur at end-tol (-1), sub-second tolerances
	for _, tol := range []int64{0, -1, 1, 999999999, 1000000000, 1999999999, 150e9, 86400e9} {
		t := tolSeconds(tol)
		for _, df := range []int64{0, 1} {
			for _, dl := range []int64{0, -1} {
				first := clamp(t+df, 0, 40000)
				last := clamp(86399-t-300+dl, 50000, 86399)
				out = append(out, input{TolNs: tol, Overwrite: df == 1,
					Src: []ifaceIn{{Name: "eth0", Days: []dayIn{{Day: 0, Blocks: blocks(first, 1, last-300, 2, last, 3)}}}},
					Dst: []ifaceIn{{Name: "eth0", Days: []dayIn{{Day: 0, Blocks: blocks(first, 4, last, 5)}}}}})
			}
		}
	}
	// lone blocks, empty days, empty blocks
	out = append(out,
		input{TolNs: 86400e9, Src: []ifaceIn{{Name: "eth0", Days: []dayIn{{Day: 0, Blocks: blocks(43200, 1)}}}}},
		input{TolNs: 300e9, Src: []ifaceIn{{Name: "eth0", Days: []dayIn{{Day: 0}}}}},
		input{TolNs: 300e9, Src: []ifaceIn{{Name: "eth0", Days: []dayIn{{Day: 0}}}}, Dst: []ifaceIn{{Name: "eth0", Days: []dayIn{{Day: 0}}}}},
		input{TolNs: 300e9, Overwrite: true, Src: []ifaceIn{{Name: "eth0", Days: []dayIn{{Day: 0, Blocks: blocks(0, 0, 86100, 0)}}}},
			Dst: []ifaceIn{{Name: "eth0", Days: []dayIn{{Day: 0, Blocks: blocks(0, 1)}}}}},
		input{TolNs: 300e9, Src: []ifaceIn{{Name: "eth0", Days: []dayIn{{Day: 0, Blocks: blocks(0, 1, 86399, 2)}}}},
			Dst: []ifaceIn{{Name: "eth0", Days: []dayIn{{Day: 0, Blocks: blocks(86398, 3, 86399, 4)}}}}},
		input{TolNs: 300e9, Src: nil, Dst: dst},
	)
	return out
}

var fixed = fixedCases()

func gen(r *vhlib.Rand, i int, o vhlib.Opts) any {
	if i < len(fixed) && !o.Search {
		return fixed[i]
	}
	return genRandom(r, o)
}

// ---------------------------------------------------------------- writing databases

// content seed c = base + 100*variant: the variant changes the flow keys only, so two blocks with the
// same base have identical totals (flow counts, drops, bytes, packets) but different content
func flowMap(seed int) *hashmap.AggFlowMap {
	m := hashmap.NewAggFlowMap()
	c, variant := seed%100, seed/100
	if c == 0 {
		return m
	}
	n := 1 + c%3
	for k := 0; k < n; k++ {
		cnt := types.Counters{BytesRcvd: uint64(1000*c + k), BytesSent: uint64(c * c), PacketsRcvd: uint64(c + k), PacketsSent: uint64(k)}
		if (c+k)%4 == 3 {
			var sip, dip [16]byte
			sip[0], sip[15], dip[0], dip[15] = 0x20, byte(c), 0xfe, byte(k)
			dip[7] = byte(variant)
			m.SecondaryMap.Set(types.NewV6KeyStatic(sip, dip, []byte{1, byte(c)}, 17), cnt)
		} else {
			m.PrimaryMap.Set(types.NewV4KeyStatic([4]byte{10, 0, byte(c), byte(k)}, [4]byte{10, byte(variant), 0, 2}, []byte{0, byte(80 + k)}, 6), cnt)
		}
	}
	return m
}

func writeDB(root string, ifs []ifaceIn, enc int) error {
	if err := os.MkdirAll(root, 0o755); err != nil {
		return err
	}
	encType := encoders.EncoderTypeLZ4
	if enc == 1 {
		encType = encoders.EncoderTypeNull
	}
	for _, ifc := range ifs {
		if err := os.MkdirAll(filepath.Join(root, ifc.Name), 0o755); err != nil {
			return err
		}
		w := goDB.NewDBWriter(root, ifc.Name, encType)
		for _, d := range ifc.Days {
			dayTs := dayBase + int64(d.Day)*epochDay
			if len(d.Blocks) == 0 {
				dir := gpfile.NewDirWriter(filepath.Join(root, ifc.Name), dayTs)
				if err := dir.Open(); err != nil {
					return err
				}
				if err := dir.Close(); err != nil {
					return err
				}
				continue
			}
			for _, b := range d.Blocks {
				if err := w.Write(flowMap(b.C), capturetypes.CaptureStats{Dropped: uint64((b.C % 100) % 2)}, dayTs+b.Off); err != nil {
					return err
				}
			}
		}
	}
	return nil
}

// ---------------------------------------------------------------- reading trees

type blockObs struct {
	Ts   int64
	Hash string
}
type dayObs struct {
	Ts     int64
	Suffix string // directory name suffix = encoded day totals
	Blocks []blockObs
}
type ifaceObs struct {
	Name string
	Days []dayObs
}
type tree struct {
	Ifaces []ifaceObs
	Dirty  []string // anything that is not <iface>/<year>/<month>/<day dir readable and self-consistent>
}

func readTree(root string) (t tree) {
	bad := func(f string, a ...any) { t.Dirty = append(t.Dirty, fmt.Sprintf(f, a...)) }
	top, err := os.ReadDir(root)
	if err != nil {
		bad("root: %v", err)
		return
	}
	for _, e := range top {
		if !e.IsDir() {
			bad("file in root: %s", e.Name())
			continue
		}
		if strings.HasPrefix(e.Name(), ".") {
			bad("hidden directory in root: %s", e.Name())
			continue
		}
		io := ifaceObs{Name: e.Name()}
		ifacePath := filepath.Join(root, e.Name())
		seen := map[int64]bool{}
		years, _ := os.ReadDir(ifacePath)
		for _, y := range years {
			if _, err := strconv.Atoi(y.Name()); err != nil || !y.IsDir() {
				bad("unexpected entry %s/%s", e.Name(), y.Name())
				continue
			}
			months, _ := os.ReadDir(filepath.Join(ifacePath, y.Name()))
			for _, mo := range months {
				if _, err := strconv.Atoi(mo.Name()); err != nil || !mo.IsDir() {
					bad("unexpected entry %s/%s/%s", e.Name(), y.Name(), mo.Name())
					continue
				}
				days, _ := os.ReadDir(filepath.Join(ifacePath, y.Name(), mo.Name()))
				for _, d := range days {
					rel := filepath.Join(e.Name(), y.Name(), mo.Name(), d.Name())
					ts, suffix, err := gpfile.ExtractTimestampMetadataSuffix(d.Name())
					if err != nil || !d.IsDir() || strings.Contains(d.Name(), ".") {
						bad("unexpected entry %s", rel)
						continue
					}
					if seen[ts] {
						bad("second directory for day %d: %s", ts, rel)
						continue
					}
					seen[ts] = true
					do, msg := readDay(ifacePath, filepath.Join(root, rel), ts, suffix)
					if msg != "" {
						bad("%s: %s", rel, msg)
					}
					io.Days = append(io.Days, do)
				}
			}
		}
		sort.Slice(io.Days, func(i, j int) bool { return io.Days[i].Ts < io.Days[j].Ts })
		t.Ifaces = append(t.Ifaces, io)
	}
	sort.Slice(t.Ifaces, func(i, j int) bool { return t.Ifaces[i].Name < t.Ifaces[j].Name })
	return
}

func readDay(ifacePath, actualPath string, ts int64, suffix string) (do dayObs, msg string) {
	do.Ts, do.Suffix = ts, suffix
	defer func() {
		if r := recover(); r != nil {
			msg = fmt.Sprint("panic while reading: ", r)
		}
	}()
	rd := gpfile.NewDirReader(ifacePath, ts, suffix)
	if rd.Path() != actualPath {
		return do, "reader would look in " + rd.Path()
	}
	if err := rd.Open(); err != nil {
		return do, "open: " + err.Error()
	}
	defer rd.Close()
	var traffic gpfile.TrafficMetadata
	var counts types.Counters
	for idx, b := range rd.BlockMetadata[0].Blocks() {
		h := sha256.New()
		var cols [types.ColIdxCount][]byte
		for c := types.ColumnIndex(0); c < types.ColIdxCount; c++ {
			data, err := rd.ReadBlockAtIndex(c, idx)
			if err != nil {
				return do, fmt.Sprintf("block %d column %d: %v", b.Timestamp, c, err)
			}
			cols[c] = append([]byte(nil), data...)
			var l [8]byte
			binary.BigEndian.PutUint64(l[:], uint64(len(data)))
			h.Write(l[:])
			h.Write(data)
		}
		bt := rd.BlockTraffic[idx]
		fmt.Fprintf(h, "|%d|%d|%d", bt.NumV4Entries, bt.NumV6Entries, bt.NumDrops)
		do.Blocks = append(do.Blocks, blockObs{Ts: b.Timestamp, Hash: fmt.Sprintf("%x", h.Sum(nil)[:12])})
		traffic = traffic.Add(bt)
		var sums [4]uint64
		for k, c := range []types.ColumnIndex{types.BytesRcvdColIdx, types.BytesSentColIdx, types.PacketsRcvdColIdx, types.PacketsSentColIdx} {
			for _, v := range bitpack.UnpackInto(cols[c], nil) {
				sums[k] += v
			}
		}
		counts.Add(types.Counters{BytesRcvd: sums[0], BytesSent: sums[1], PacketsRcvd: sums[2], PacketsSent: sums[3]})
	}
	// day-level metadata must describe the blocks that are there
	if rd.Metadata.Traffic != traffic {
		msg = fmt.Sprintf("day traffic metadata %+v, blocks add up to %+v", rd.Metadata.Traffic, traffic)
	} else if rd.Metadata.Counts != counts {
		msg = fmt.Sprintf("day counters %+v, blocks add up to %+v", rd.Metadata.Counts, counts)
	} else if want := strings.TrimPrefix(rd.Metadata.MarshalString(), "_"); suffix != want && !(suffix == "" && len(do.Blocks) == 0) {
		msg = fmt.Sprintf("directory suffix %q, metadata says %q", suffix, want)
	}
	return do, msg
}

// ---------------------------------------------------------------- running a case

type mergeObs struct {
	Err     string            `json:"err,omitempty"`
	Summary goDB.MergeSummary `json:"summary"`
	Dst     tree              `json:"dst"`
	Src     tree              `json:"src"`
}
type observed struct {
	Src0, Dst0 tree
	M1, M2     mergeObs
	Clean      bool
	Dirty      []string `json:"dirty,omitempty"`
}

func doMerge(in *input, src, dst string) (m mergeObs) {
	var err error
	panicked, pmsg := vhlib.Recover(func() {
		m.Summary, err = goDB.MergeDatabases(context.Background(), goDB.MergeOptions{
			SourcePath: src, DestinationPath: dst, Interfaces: in.Ifaces,
			Overwrite: in.Overwrite, DryRun: in.Dry, CompleteTolerance: time.Duration(in.TolNs)})
	})
	if panicked {
		m.Err = "panic: " + pmsg
	} else if err != nil {
		m.Err = strings.ReplaceAll(strings.ReplaceAll(err.Error(), src, "SRC"), dst, "DST")
	}
	m.Dst, m.Src = readTree(dst), readTree(src)
	return
}

type idTable struct {
	ids map[string]int
}

func (t *idTable) id(h string) int {
	if v, ok := t.ids[h]; ok {
		return v
	}
	v := len(t.ids) + 1
	t.ids[h] = v
	return v
}

func (t *idTable) coqTree(tr tree) string {
	var ifs []string
	for _, ifc := range tr.Ifaces {
		var days []string
		for _, d := range ifc.Days {
			var bl []string
			for _, b := range d.Blocks {
				bl = append(bl, fmt.Sprintf("(%d,%d)", b.Ts, t.id(b.Hash)))
			}
			days = append(days, fmt.Sprintf("(%d,[%s])", d.Ts, strings.Join(bl, ";")))
		}
		ifs = append(ifs, fmt.Sprintf("(%s,[%s])", vhlib.CoqString(ifc.Name), strings.Join(days, ";")))
	}
	return "[" + strings.Join(ifs, ";") + "]"
}

func coqRes(m mergeObs) string {
	switch {
	case strings.HasPrefix(m.Err, "panic: "):
		return "Panic"
	case m.Err != "":
		return "Err"
	}
	s := m.Summary
	return fmt.Sprintf("(Ok (mk_sum %d %d %d %d %d %d))", s.InterfacesProcessed, s.DaysCopied, s.DaysRebuilt, s.DaysSkipped,
		s.ConflictsResolvedByDestination, s.ConflictsResolvedBySource)
}

func coqIfaceList(ss []string) string {
	xs := make([]string, len(ss))
	for i, s := range ss {
		if vhlib.IsPlain(s) {
			xs[i] = vhlib.CoqString(s)
			continue
		}
		// control characters (tab, newline): spell the string out
		var parts []string
		for _, c := range []byte(s) {
			parts = append(parts, fmt.Sprintf("String (Ascii.ascii_of_nat %d%%nat)", c))
		}
		xs[i] = "(" + strings.Join(parts, " (") + " EmptyString" + strings.Repeat(")", len(parts))
	}
	return vhlib.CoqList(xs)
}

func run(raw json.RawMessage, o vhlib.Opts) (*vhlib.Case, error) {
	var in input
	if err := json.Unmarshal(raw, &in); err != nil {
		return nil, err
	}
	work, err := os.MkdirTemp(o.Work, "c24-")
	if err != nil {
		return nil, err
	}
	defer os.RemoveAll(work)
	src, dst := filepath.Join(work, "src"), filepath.Join(work, "dst")
	if err := writeDB(src, in.Src, in.Enc); err != nil {
		return nil, fmt.Errorf("writing source: %w", err)
	}
	if err := writeDB(dst, in.Dst, in.Enc); err != nil {
		return nil, fmt.Errorf("writing destination: %w", err)
	}
	var ob observed
	ob.Src0, ob.Dst0 = readTree(src), readTree(dst)
	if len(ob.Src0.Dirty)+len(ob.Dst0.Dirty) > 0 {
		return nil, fmt.Errorf("generated databases are not clean: %v %v", ob.Src0.Dirty, ob.Dst0.Dirty)
	}
	ob.M1 = doMerge(&in, src, dst)
	ob.M2 = doMerge(&in, src, dst)
	for _, t := range []tree{ob.M1.Dst, ob.M1.Src, ob.M2.Dst, ob.M2.Src} {
		ob.Dirty = append(ob.Dirty, t.Dirty...)
	}
	ob.Clean = len(ob.Dirty) == 0

	ids := &idTable{ids: map[string]int{}}
	coq := fmt.Sprintf("(Case %s %s %s %d %s %s %s %s %s %s %s %s %s)",
		coqIfaceList(in.Ifaces), vhlib.CoqBool(in.Overwrite), vhlib.CoqBool(in.Dry), in.TolNs,
		ids.coqTree(ob.Src0), ids.coqTree(ob.Dst0),
		coqRes(ob.M1), ids.coqTree(ob.M1.Dst), ids.coqTree(ob.M1.Src),
		coqRes(ob.M2), ids.coqTree(ob.M2.Dst), ids.coqTree(ob.M2.Src), vhlib.CoqBool(ob.Clean))
	if in.TolNs < 0 {
		coq = strings.Replace(coq, fmt.Sprintf(" %d ", in.TolNs), fmt.Sprintf(" (%d) ", in.TolNs), 1)
	}

	// distribution
	s := ob.M1.Summary
	tags := []string{fmt.Sprintf("ow=%v", in.Overwrite), fmt.Sprintf("dry=%v", in.Dry)}
	switch {
	case ob.M1.Err != "":
		tags = append(tags, "result=error")
	default:
		tags = append(tags, "result=ok")
	}
	if s.DaysCopied > 0 {
		tags = append(tags, "copied")
	}
	if s.DaysRebuilt > 0 {
		tags = append(tags, "rebuilt")
	}
	if s.DaysSkipped > 0 {
		tags = append(tags, "skipped")
	}
	if s.ConflictsResolvedByDestination+s.ConflictsResolvedBySource > 0 {
		tags = append(tags, "conflicts")
	}
	if len(in.Ifaces) > 0 {
		tags = append(tags, "iface-filter")
	}
	if fmt.Sprint(ob.M1.Dst.Ifaces) != fmt.Sprint(ob.Dst0.Ifaces) {
		tags = append(tags, "dst-changed")
	}
	if !ob.Clean {
		tags = append(tags, "dirty")
	}
	// a day on both sides with the same directory name (same totals) but different blocks
	for _, si := range ob.Src0.Ifaces {
		for _, di := range ob.Dst0.Ifaces {
			if si.Name != di.Name {
				continue
			}
			for _, sd := range si.Days {
				for _, dd := range di.Days {
					if sd.Ts == dd.Ts && sd.Suffix == dd.Suffix && fmt.Sprint(sd.Blocks) != fmt.Sprint(dd.Blocks) {
						if tags[len(tags)-1] != "same-name-different-content" {
							tags = append(tags, "same-name-different-content")
						}
					}
				}
			}
		}
	}
	return &vhlib.Case{Observed: ob, Tags: tags, Coq: coq,
		Nontrivial: s.DaysCopied+s.DaysRebuilt+s.DaysSkipped > 0 || ob.M1.Err != ""}, nil
}

func main() {
	time.Local = time.UTC
	vhlib.Main(gen, run)
}
