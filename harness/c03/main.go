// C03 correspondence harness: day metadata (.blockmeta) of gpfile day directories.
//
//	kind "hist":   writer sessions (NewDirWriter / Open / WriteBlocks* / Close) on one day with non-monotone
//	               timestamps, gaps around 2^32 s, counts around 2^32; afterwards the .blockmeta bytes and the
//	               metadata a reader gets (NewDirReader / Open) are recorded.
//	kind "decode": arbitrary bytes installed as .blockmeta and opened by a reader; panics are recovered.
//
// Only the exported API of /repo is used (no hook needed).
package main

import (
	"bytes"
	"encoding/binary"
	"encoding/json"
	"fmt"
	"os"
	"path/filepath"
	"strconv"
	"strings"

	"verifharness/vhlib"

	"github.com/els0r/goProbe/v4/pkg/goDB/encoder"
	"github.com/els0r/goProbe/v4/pkg/goDB/encoder/encoders"
	"github.com/els0r/goProbe/v4/pkg/goDB/storage/gpfile"
	"github.com/els0r/goProbe/v4/pkg/types"
)

const (
	dayTS  = int64(1700006400) // 2023-11-15 00:00:00 UTC, a multiple of 86400
	nCols  = int(types.ColIdxCount)
	maxU32 = uint64(1<<32 - 1)
)

type writeIn struct {
	Ts    int64     `json:"ts"`
	V4    uint64    `json:"v4"`
	V6    uint64    `json:"v6"`
	Drops uint64    `json:"drops"`
	C     [4]uint64 `json:"c"`
	Cols  [8]int    `json:"cols"` // bytes of data per column
	Fill  byte      `json:"fill"`
}

type sessIn struct {
	Enc    string    `json:"enc"` // null | lz4
	Writes []writeIn `json:"writes"`
	Junk   []byte    `json:"junk"` // previous buffer content handed to the model only
}

type input struct {
	Kind     string   `json:"kind"`
	Sessions []sessIn `json:"sessions,omitempty"`
	Data     []byte   `json:"data,omitempty"`
	Note     string   `json:"note,omitempty"`
}

// ---------------------------------------------------------------- generation

var counts = []uint64{0, 1, 2, 7, 1000, maxU32 - 1, maxU32, maxU32 + 1, maxU32 + 2, 1 << 40, 1<<63 + 5, ^uint64(0)}
var smallCounts = []uint64{0, 1, 2, 7, 1000, 65536, maxU32}
var bigs = []uint64{0, 1, 255, 1 << 32, 1<<63 - 1, 1 << 63, ^uint64(0), 1<<64 - 300}
var steps = []int64{300, 300, 300, 1, 0, -1, -300, -86400, 1<<32 - 1, 1 << 32, 1<<32 + 1, 1 << 33, 1<<31 - 1, 1 << 31, -(1 << 32), 1 << 62}
var absTs = []int64{0, -1, 1, -(1 << 63), 1<<63 - 1, 1 << 62, dayTS, dayTS + 86399}
var colLens = []int{0, 0, 1, 4, 9, 40}

func mkWrite(ts int64, r *vhlib.Rand, extreme bool) writeIn {
	w := writeIn{Ts: ts, Fill: byte(r.Intn(256))}
	pick := smallCounts
	if extreme {
		pick = counts
	}
	w.V4, w.V6, w.Drops = vhlib.Pick(r, pick), vhlib.Pick(r, pick), vhlib.Pick(r, pick)
	if !extreme && r.Chance(70) {
		w.V4, w.V6, w.Drops = uint64(r.Intn(50)), uint64(r.Intn(5)), uint64(r.Intn(3))
	}
	for i := range w.C {
		if r.Chance(40) {
			w.C[i] = vhlib.Pick(r, bigs)
		} else {
			w.C[i] = uint64(r.Intn(100000))
		}
	}
	for i := range w.Cols {
		w.Cols[i] = vhlib.Pick(r, colLens)
	}
	return w
}

func w0(ts int64, v4, v6, dr uint64) writeIn {
	return writeIn{Ts: ts, V4: v4, V6: v6, Drops: dr, C: [4]uint64{10, 20, 1, 2}, Cols: [8]int{4, 4, 1, 2, 8, 8, 8, 8}, Fill: 7}
}

// hand-picked boundary histories (deterministic prefix)
func fixedHist() []input {
	t := dayTS
	one := func(note string, ss ...sessIn) input { return input{Kind: "hist", Note: note, Sessions: ss} }
	s := func(ws ...writeIn) sessIn { return sessIn{Enc: "null", Writes: ws} }
	return []input{
		one("monotone, one session", s(w0(t+300, 3, 1, 0), w0(t+600, 5, 0, 2))),
		one("decreasing in one session (1700000300 after 1700000600)", s(w0(1700000600, 1, 1, 1), w0(1700000300, 2, 2, 2))),
		one("decreasing across sessions", s(w0(t+600, 1, 0, 0)), s(w0(t+300, 2, 0, 0))),
		one("equal timestamps in one session", s(w0(t+300, 1, 0, 0), w0(t+300, 2, 0, 0), w0(t+600, 3, 0, 0))),
		one("equal timestamps across sessions", s(w0(t+300, 1, 0, 0)), s(w0(t+300, 2, 0, 0)), s(w0(t+301, 3, 0, 0))),
		one("gap 2^32-1", s(w0(t, 1, 0, 0), w0(t+1<<32-1, 2, 0, 0))),
		one("gap 2^32", s(w0(t, 1, 0, 0), w0(t+1<<32, 2, 0, 0))),
		one("gap 2^32 then a good session", s(w0(t, 1, 0, 0)), s(w0(t+1<<32, 2, 0, 0)), s(w0(t+300, 3, 0, 0))),
		one("v4 = 2^32-1", s(w0(t+300, maxU32, 0, 0))),
		one("v4 = 2^32", s(w0(t+300, maxU32+1, 0, 0))),
		one("v6 = 2^32", s(w0(t+300, 0, maxU32+1, 0))),
		one("drops = 2^32 after a committed block", s(w0(t+300, 1, 1, 1)), s(w0(t+600, 0, 0, maxU32+1)), s(w0(t+900, 2, 2, 2))),
		one("drops = 2^32-1", s(w0(t+300, 0, 0, maxU32))),
		one("empty session", s()),
		one("empty session then writes", s(), s(w0(t+300, 1, 2, 3)), s()),
		one("empty, empty", s(), s()),
		one("int64 extremes increasing", s(w0(-(1<<63), 1, 0, 0), w0(-(1<<63)+5, 2, 0, 0))),
		one("int64 overflow of the delta", s(w0(-(1<<63), 1, 0, 0), w0(1<<63-1, 2, 0, 0))),
		one("wrap-around: max then min", s(w0(1<<63-1, 1, 0, 0), w0(-(1<<63), 2, 0, 0))),
		one("first block negative", s(w0(-5, 1, 0, 0), w0(0, 2, 0, 0), w0(5, 3, 0, 0))),
		one("decreasing by 2^32", s(w0(t+1<<32, 1, 0, 0), w0(t, 2, 0, 0))),
		one("totals wrap", sessIn{Enc: "null", Writes: []writeIn{
			{Ts: t + 300, V4: 1, C: [4]uint64{^uint64(0), 1 << 63, 5, 0}, Cols: [8]int{1, 1, 1, 1, 1, 1, 1, 1}},
			{Ts: t + 600, V4: 2, C: [4]uint64{2, 1 << 63, 5, 0}, Cols: [8]int{0, 0, 0, 0, 0, 0, 0, 0}}}}),
		one("lz4 compressible", sessIn{Enc: "lz4", Writes: []writeIn{
			{Ts: t + 300, V4: 4, V6: 1, C: [4]uint64{1, 2, 3, 4}, Cols: [8]int{200, 200, 40, 9, 1, 0, 300, 64}, Fill: 0}}}),
		one("rejected write between accepted ones", s(w0(t+600, 1, 0, 0), w0(t+300, 2, 0, 0), w0(t+900, 3, 0, 0))),
	}
}

func genHist(r *vhlib.Rand, o vhlib.Opts) input {
	in := input{Kind: "hist"}
	nSess := 1 + r.Intn(3)
	budget := 3 // accepted blocks are bounded to keep the Coq literals short
	if o.Search {
		budget = 4
	}
	extreme := r.Chance(35)
	ts := dayTS + int64(r.Intn(288))*300
	if r.Chance(8) {
		ts = vhlib.Pick(r, absTs)
	}
	first := true
	for s := 0; s < nSess; s++ {
		se := sessIn{Enc: "null"}
		if r.Chance(12) {
			se.Enc = "lz4"
		}
		nw := r.Intn(3)
		if s == 0 && nw == 0 && r.Chance(80) {
			nw = 1
		}
		for k := 0; k < nw && budget > 0; k++ {
			if !first {
				st := vhlib.Pick(r, steps)
				if r.Chance(50) {
					st = 300 * int64(1+r.Intn(4))
				}
				ts = ts + st // int64 wrap-around is intended
			}
			first = false
			se.Writes = append(se.Writes, mkWrite(ts, r, extreme && r.Chance(50)))
			budget--
		}
		nj := vhlib.Pick(r, []int{0, 0, 3, 80, 200})
		for j := 0; j < nj; j++ {
			se.Junk = append(se.Junk, byte(1+r.Intn(255)))
		}
		in.Sessions = append(in.Sessions, se)
	}
	return in
}

// builder of (mostly) well-formed files, independent of the code under test
func buildFile(r *vhlib.Rand, n int) []byte {
	var b []byte
	p64 := func(v uint64) { b = binary.BigEndian.AppendUint64(b, v) }
	p32 := func(v uint32) { b = binary.BigEndian.AppendUint32(b, v) }
	p64(1)
	p64(uint64(n))
	for i := 0; i < 7; i++ {
		p64(vhlib.Pick(r, bigs))
	}
	for c := 0; c < nCols; c++ {
		p64(uint64(r.Intn(100000)))
		for j := 0; j < n; j++ {
			p32(uint32(vhlib.Pick(r, []uint64{0, 1, 17, 4096, maxU32})))
			p32(uint32(vhlib.Pick(r, []uint64{0, 1, 17, 4096, maxU32})))
			b = append(b, byte(vhlib.Pick(r, []int{0, 1, 2, 3, 4, 255})))
		}
	}
	p64(uint64(vhlib.Pick(r, []int64{dayTS, 0, -1, 1<<63 - 1, -(1 << 63), 1<<63 - 10})))
	for j := 0; j < n; j++ {
		p32(uint32(r.Intn(100)))
		p32(uint32(vhlib.Pick(r, []uint64{0, 1, maxU32})))
		p32(uint32(r.Intn(3)))
		p32(uint32(vhlib.Pick(r, []uint64{0, 1, 300, 300, maxU32, 1 << 31})))
	}
	return b
}

func fixedDecode() []input {
	r := vhlib.NewRand(424242)
	var out []input
	add := func(note string, d []byte) { out = append(out, input{Kind: "decode", Note: note, Data: d}) }
	add("empty file", []byte{})
	add("one byte", []byte{1})
	f0 := buildFile(r, 0)
	f1 := buildFile(r, 1)
	f2 := buildFile(r, 2)
	for _, l := range []int{8, 16, 71, 72, 73, 136, 143} {
		add("truncated zero-block file", f0[:l])
	}
	add("zero-block file", f0)
	add("zero-block file + 1", append(append([]byte{}, f0...), 9))
	for _, l := range []int{144, 145, 153, 216, 223, 231} {
		add("one-block file truncated", f1[:l])
	}
	add("one-block file", f1)
	add("two-block file", f2)
	add("two-block file truncated by 1", f2[:len(f2)-1])
	add("two-block file truncated to one-block size", f2[:232])
	for _, nb := range []uint64{0, 1, 2, 3, 1 << 32, 1 << 63, ^uint64(0), 1<<64 - 87, 209622091746699450} {
		d := append([]byte{}, f1...)
		binary.BigEndian.PutUint64(d[8:16], nb)
		add("one-block file, nBlocks field patched", d)
		d2 := append([]byte{}, f0...)
		binary.BigEndian.PutUint64(d2[8:16], nb)
		add("zero-block file, nBlocks field patched", d2)
	}
	return out
}

func genDecode(r *vhlib.Rand, o vhlib.Opts) input {
	in := input{Kind: "decode"}
	maxN := 2
	n := r.Intn(maxN + 1)
	f := buildFile(r, n)
	switch r.Intn(7) {
	case 0: // truncation
		in.Note = "truncated"
		in.Data = f[:r.Intn(len(f)+1)]
	case 1: // truncation near a structural boundary
		in.Note = "truncated-boundary"
		cuts := []int{0, 8, 16, 72, 80, 143, 144, 144 + 88*n - 1, 144 + 88*n, 72 + 8 + 9*n, len(f) - 16, len(f) - 1}
		c := vhlib.Pick(r, cuts)
		if c < 0 {
			c = 0
		}
		if c > len(f) {
			c = len(f)
		}
		in.Data = f[:c]
	case 2: // block count field vs size
		in.Note = "nblocks-patched"
		nb := vhlib.Pick(r, []uint64{0, 1, 2, 3, 4, uint64(n) + 1, 1 << 32, 1 << 63, ^uint64(0), ^uint64(0) / 88, ^uint64(0)/88 + 1, 1<<64 - 144})
		binary.BigEndian.PutUint64(f[8:16], nb)
		in.Data = f
	case 3: // byte mutations
		in.Note = "mutated"
		for k := 0; k < 1+r.Intn(6); k++ {
			f[r.Intn(len(f))] = byte(r.Intn(256))
		}
		in.Data = f
	case 4: // random bytes of a plausible size
		in.Note = "random"
		l := vhlib.Pick(r, []int{0, 1, 100, 143, 144, 145, 200, 231, 232, 233, 320})
		d := make([]byte, l)
		for i := range d {
			d[i] = byte(r.Intn(256))
		}
		if l >= 16 && r.Chance(70) {
			binary.BigEndian.PutUint64(d[8:16], uint64(r.Intn(4)))
		}
		in.Data = d
	case 5: // extended / padded
		in.Note = "padded"
		pad := make([]byte, vhlib.Pick(r, []int{1, 87, 88, 89}))
		in.Data = append(f, pad...)
		if r.Bool() {
			binary.BigEndian.PutUint64(in.Data[8:16], uint64(n+1))
		}
	default:
		in.Note = "valid"
		in.Data = f
	}
	return in
}

func gen(r *vhlib.Rand, i int, o vhlib.Opts) any {
	fh := fixedHist()
	if i < len(fh) {
		return fh[i]
	}
	i -= len(fh)
	fd := fixedDecode()
	if i < len(fd) {
		return fd[i]
	}
	if r.Chance(45) {
		return genHist(r, o)
	}
	return genDecode(r, o)
}

// ---------------------------------------------------------------- Coq printers

func coqN(v uint64) string { return strconv.FormatUint(v, 10) }
func coqZ(v int64) string {
	if v < 0 {
		return "(" + strconv.FormatInt(v, 10) + ")"
	}
	return strconv.FormatInt(v, 10)
}
func coqBytes(b []byte) string {
	xs := make([]string, len(b))
	for i, c := range b {
		xs[i] = strconv.Itoa(int(c))
	}
	return "[" + strings.Join(xs, ";") + "]"
}
func coqTraffic(v4, v6, dr uint64) string {
	return fmt.Sprintf("(Build_traffic %s %s %s)", coqN(v4), coqN(v6), coqN(dr))
}
func coqCounters(c types.Counters) string {
	return fmt.Sprintf("(Build_counters %s %s %s %s)", coqN(c.BytesRcvd), coqN(c.BytesSent), coqN(c.PacketsRcvd), coqN(c.PacketsSent))
}

// metadata as a reader sees it; ok=false when the columns do not have one shape (never expected)
func coqMeta(m *gpfile.Metadata) (string, [][]uint64, bool) {
	n := len(m.BlockTraffic)
	var cols []string
	var offs [][]uint64
	ok := true
	for c := 0; c < nCols; c++ {
		h := m.BlockMetadata[c]
		if h == nil || len(h.BlockList) != n {
			return "", nil, false
		}
		var bl []string
		var of []uint64
		for j, b := range h.BlockList {
			bl = append(bl, fmt.Sprintf("Build_colblk %d %d %d", b.Len, b.RawLen, uint8(b.EncoderType)))
			of = append(of, b.Offset)
			if b.Timestamp != m.BlockMetadata[0].BlockList[j].Timestamp {
				ok = false
			}
		}
		offs = append(offs, of)
		cols = append(cols, fmt.Sprintf("Build_column %s [%s]", coqN(h.CurrentOffset), strings.Join(bl, ";")))
	}
	var bis []string
	for j := 0; j < n; j++ {
		t := m.BlockTraffic[j]
		bis = append(bis, fmt.Sprintf("Build_blockinfo %s %s", coqZ(m.BlockMetadata[0].BlockList[j].Timestamp), coqTraffic(t.NumV4Entries, t.NumV6Entries, t.NumDrops)))
	}
	return fmt.Sprintf("(Build_meta %s [%s] [%s] %s %s)", coqN(m.Version), strings.Join(cols, ";"), strings.Join(bis, ";"),
		coqTraffic(m.Traffic.NumV4Entries, m.Traffic.NumV6Entries, m.Traffic.NumDrops), coqCounters(m.Counts)), offs, ok
}

// ---------------------------------------------------------------- running the real code

type readBack struct {
	Class string     `json:"class"` // ok err panic
	Err   string     `json:"err,omitempty"`
	Ts    []int64    `json:"ts,omitempty"`
	Coq   string     `json:"-"`
	Offs  [][]uint64 `json:"-"`
}

// open the day for reading and project the metadata
func readDay(base string) (rb readBack) {
	defer func() {
		if r := recover(); r != nil {
			rb = readBack{Class: "panic", Err: fmt.Sprint(r)}
		}
	}()
	d := gpfile.NewDirReader(base, dayTS, "")
	if err := d.Open(); err != nil {
		return readBack{Class: "err", Err: trimErr(err, base)}
	}
	s, offs, ok := coqMeta(d.Metadata)
	if !ok {
		return readBack{Class: "err", Err: "columns of different shape / timestamps"}
	}
	rb = readBack{Class: "ok", Coq: s, Offs: offs}
	for _, b := range d.BlockMetadata[0].BlockList {
		rb.Ts = append(rb.Ts, b.Timestamp)
	}
	_ = d.Close()
	return rb
}

func trimErr(err error, base string) string {
	s := strings.ReplaceAll(err.Error(), base, "<db>")
	if len(s) > 160 {
		s = s[:160]
	}
	return s
}

func (rb readBack) coqRes() string {
	switch rb.Class {
	case "ok":
		return "(Ok " + rb.Coq + ")"
	case "err":
		return "Err"
	}
	return "Panic"
}

func dayDir(base string) string {
	m, _ := filepath.Glob(filepath.Join(base, "2023", "11", strconv.FormatInt(dayTS, 10)+"*"))
	if len(m) == 0 {
		return ""
	}
	return m[0]
}

func encType(s string) encoders.Type {
	if s == "lz4" {
		return encoders.EncoderTypeLZ4
	}
	return encoders.EncoderTypeNull
}

// what GPFile.writeBlock records for a column (the encoders are outside the model)
func colWrite(enc string, data []byte) (written, raw int, et encoders.Type, err error) {
	if len(data) == 0 {
		return 0, 0, encoders.EncoderTypeNull, nil
	}
	if enc != "lz4" {
		return len(data), len(data), encoders.EncoderTypeNull, nil
	}
	e, err := encoder.New(encoders.EncoderTypeLZ4)
	if err != nil {
		return 0, 0, 0, err
	}
	defer e.Close()
	var sink bytes.Buffer
	n, err := e.Compress(data, make([]byte, 0, 8192), &sink)
	if err != nil {
		return 0, 0, 0, err
	}
	if n > len(data) {
		return len(data), len(data), encoders.EncoderTypeNull, nil
	}
	return n, len(data), encoders.EncoderTypeLZ4, nil
}

type sessObs struct {
	Open   bool   `json:"open"`
	Writes []bool `json:"writes"`
	Close  bool   `json:"close"`
	Errs   []string `json:"errs,omitempty"`
}

func runHist(in input, work string, c *vhlib.Case) error {
	base, err := os.MkdirTemp(work, "c03h-")
	if err != nil {
		return err
	}
	defer os.RemoveAll(base)

	var obs []sessObs
	var coqSess, coqObs []string
	total, accepted, rejected, closeFailed := 0, 0, 0, 0
	for _, se := range in.Sessions {
		so := sessObs{Writes: []bool{}}
		var coqWs []string
		panicked, msg := vhlib.Recover(func() {
			d := gpfile.NewDirWriter(base, dayTS, gpfile.WithEncoderTypeLevel(encType(se.Enc), 0))
			if err := d.Open(); err != nil {
				so.Errs = append(so.Errs, "open: "+trimErr(err, base))
				return
			}
			so.Open = true
			for _, w := range se.Writes {
				var data [types.ColIdxCount][]byte
				for i := range data {
					data[i] = bytes.Repeat([]byte{w.Fill}, w.Cols[i])
				}
				err := d.WriteBlocks(w.Ts, gpfile.TrafficMetadata{NumV4Entries: w.V4, NumV6Entries: w.V6, NumDrops: w.Drops},
					types.Counters{BytesRcvd: w.C[0], BytesSent: w.C[1], PacketsRcvd: w.C[2], PacketsSent: w.C[3]}, data)
				so.Writes = append(so.Writes, err == nil)
				if err != nil {
					so.Errs = append(so.Errs, "write: "+trimErr(err, base))
				}
			}
			if err := d.Close(); err != nil {
				so.Errs = append(so.Errs, "close: "+trimErr(err, base))
			} else {
				so.Close = true
			}
		})
		if panicked {
			return fmt.Errorf("writer session panicked: %s", msg)
		}
		for _, w := range se.Writes {
			total++
			var cws []string
			for i := 0; i < nCols; i++ {
				wr, raw, et, err := colWrite(se.Enc, bytes.Repeat([]byte{w.Fill}, w.Cols[i]))
				if err != nil {
					return err
				}
				cws = append(cws, fmt.Sprintf("Build_colwrite %d %d %d", wr, raw, uint8(et)))
			}
			coqWs = append(coqWs, fmt.Sprintf("Build_write %s %s %s [%s]", coqZ(w.Ts), coqTraffic(w.V4, w.V6, w.Drops),
				coqCounters(types.Counters{BytesRcvd: w.C[0], BytesSent: w.C[1], PacketsRcvd: w.C[2], PacketsSent: w.C[3]}), strings.Join(cws, ";")))
		}
		for _, ok := range so.Writes {
			if ok {
				accepted++
			} else {
				rejected++
			}
		}
		if so.Open && !so.Close {
			closeFailed++
		}
		obs = append(obs, so)
		coqSess = append(coqSess, fmt.Sprintf("([%s], %s)", strings.Join(coqWs, ";"), coqBytes(se.Junk)))
		var fl []string
		for _, b := range so.Writes {
			fl = append(fl, vhlib.CoqBool(b))
		}
		coqObs = append(coqObs, fmt.Sprintf("Build_session_result %s [%s] %s", vhlib.CoqBool(so.Open), strings.Join(fl, ";"), vhlib.CoqBool(so.Close)))
	}

	// the committed file and what a reader gets
	fileCoq := "None"
	var fileHex string
	if dd := dayDir(base); dd != "" {
		if b, err := os.ReadFile(filepath.Join(dd, ".blockmeta")); err == nil {
			fileCoq = "(Some " + coqBytes(b) + ")"
			fileHex = fmt.Sprintf("%x", b)
		}
	}
	rb := readDay(base)
	c.Observed = map[string]any{"sessions": obs, "blockmeta_hex": fileHex, "reopen": rb}
	c.Coq = fmt.Sprintf("CHist [%s] [%s] %s %s", strings.Join(coqSess, ";"), strings.Join(coqObs, ";"), fileCoq, rb.coqRes())
	c.Nontrivial = total > 0
	c.Tags = append(c.Tags, "hist", fmt.Sprintf("sessions=%d", len(in.Sessions)), "reopen="+rb.Class)
	if rejected > 0 {
		c.Tags = append(c.Tags, "write-rejected")
	}
	if closeFailed > 0 {
		c.Tags = append(c.Tags, "close-rejected")
	}
	if rejected == 0 && closeFailed == 0 {
		c.Tags = append(c.Tags, "accepted-history")
	}
	return nil
}

func runDecode(in input, work string, c *vhlib.Case) error {
	base, err := os.MkdirTemp(work, "c03d-")
	if err != nil {
		return err
	}
	defer os.RemoveAll(base)
	dir := filepath.Join(base, "2023", "11", strconv.FormatInt(dayTS, 10))
	if err := os.MkdirAll(dir, 0o755); err != nil {
		return err
	}
	if err := os.WriteFile(filepath.Join(dir, ".blockmeta"), in.Data, 0o644); err != nil {
		return err
	}
	rb := readDay(base)
	var offs []string
	for _, of := range rb.Offs {
		var xs []string
		for _, v := range of {
			xs = append(xs, coqN(v))
		}
		offs = append(offs, "["+strings.Join(xs, ";")+"]")
	}
	c.Observed = map[string]any{"reopen": rb, "len": len(in.Data)}
	c.Coq = fmt.Sprintf("CDecode %s %s [%s]", coqBytes(in.Data), rb.coqRes(), strings.Join(offs, ";"))
	c.Nontrivial = len(in.Data) >= 16
	c.Tags = append(c.Tags, "decode", "decode="+rb.Class)
	if in.Note != "" {
		c.Tags = append(c.Tags, "decode:"+strings.SplitN(in.Note, ",", 2)[0])
	}
	return nil
}

func run(raw json.RawMessage, o vhlib.Opts) (*vhlib.Case, error) {
	var in input
	if err := json.Unmarshal(raw, &in); err != nil {
		return nil, err
	}
	c := &vhlib.Case{}
	switch in.Kind {
	case "hist":
		return c, runHist(in, o.Work, c)
	case "decode":
		return c, runDecode(in, o.Work, c)
	}
	return nil, fmt.Errorf("unknown kind %q", in.Kind)
}

func main() { vhlib.Main(gen, run) }
