//go:build goprobe_noliblz4

package xcfg

const noLibLZ4 = true
