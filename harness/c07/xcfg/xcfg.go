// Package xcfg is shared by the C07 and C02 harnesses: the four build configurations of goDB's encoders,
// building and driving copies of a harness in the other configurations (child processes speaking one JSON
// document per line on stdin/stdout), and the deterministic block generators.
package xcfg

import (
	"bufio"
	"bytes"
	"fmt"
	"io"
	"os"
	"os/exec"
	"path/filepath"
	"reflect"
	"runtime"
	"strings"
	"sync"

	"github.com/els0r/goProbe/v4/pkg/goDB/encoder/zstd"
)

// Config is one build configuration of the encoders
type Config struct {
	Name string   // cgo nocgo noliblz4 nolibzstd
	Tags string   // extra build tags
	Env  []string // extra environment of `go build`
}

// Configs lists the configurations named by the properties
var Configs = []Config{
	{Name: "cgo"},
	{Name: "nocgo", Env: []string{"CGO_ENABLED=0"}},
	{Name: "noliblz4", Tags: "goprobe_noliblz4"},
	{Name: "nolibzstd", Tags: "goprobe_nolibzstd"},
}

// Names of all configurations
func Names() []string {
	var ns []string
	for _, c := range Configs {
		ns = append(ns, c.Name)
	}
	return ns
}

// Own is the configuration this binary was built in (from its build constraints)
func Own() string {
	switch {
	case !cgoEnabled:
		return "nocgo"
	case noLibLZ4 && noLibZstd:
		return "noliblz4+nolibzstd"
	case noLibLZ4:
		return "noliblz4"
	case noLibZstd:
		return "nolibzstd"
	}
	return "cgo"
}

// Impl is the encoder variant this binary links for an encoder: the //go:build lines of
// encoder/lz4/lz4_{cgo,native}.go and encoder/zstd/zstd_{cgo,native}.go, cross-checked for zstd against the
// fields of the linked Encoder struct. The null encoder has one (pure Go) implementation.
func Impl(enc string) string {
	switch enc {
	case "lz4":
		if cgoEnabled && !noLibLZ4 {
			return "cgo"
		}
		return "native"
	case "zstd":
		want := "native"
		if cgoEnabled && !noLibZstd {
			want = "cgo"
		}
		_, hasCtx := reflect.TypeOf(zstd.Encoder{}).FieldByName("cCtx")
		have := "native"
		if hasCtx {
			have = "cgo"
		}
		if have != want {
			return "mismatch:" + have
		}
		return want
	}
	return "native"
}

// HarnessDir is /verif/harness (where the harness module lives)
func HarnessDir() string {
	if d := os.Getenv("VERIF_HARNESS"); d != "" {
		return d
	}
	if _, f, _, ok := runtime.Caller(0); ok && filepath.IsAbs(f) {
		d := filepath.Dir(filepath.Dir(filepath.Dir(f)))
		if _, err := os.Stat(filepath.Join(d, "go.mod")); err == nil {
			return d
		}
	}
	return "/verif/harness"
}

var buildMu sync.Mutex
var built = map[string]string{}

// Build compiles package pkg (e.g. "./c07") of the harness module in configuration cfg into work and returns
// the binary. The same -modfile as the driver's own build is used when it exists (VERIF_REPO runs).
func Build(work, pkg, cfg string) (string, error) {
	buildMu.Lock()
	if b, ok := built[pkg+"|"+cfg]; ok {
		buildMu.Unlock()
		return b, nil
	}
	buildMu.Unlock()
	var c *Config
	for i := range Configs {
		if Configs[i].Name == cfg {
			c = &Configs[i]
		}
	}
	if c == nil {
		return "", fmt.Errorf("unknown configuration %q", cfg)
	}
	work, _ = filepath.Abs(work)
	out := filepath.Join(work, "vh_"+strings.TrimPrefix(pkg, "./")+"_"+cfg)
	// a private copy of the module file per child build: concurrent `go build -mod=mod` runs must not
	// rewrite one shared go.mod (the driver's -modfile copy when VERIF_REPO is set, else the harness' own)
	srcMod, srcSum := filepath.Join(HarnessDir(), "go.mod"), filepath.Join(HarnessDir(), "go.sum")
	if mf := filepath.Join(work, "go.alt.mod"); fileExists(mf) {
		srcMod, srcSum = mf, filepath.Join(work, "go.alt.sum")
	}
	base := filepath.Join(work, "go."+strings.TrimPrefix(pkg, "./")+"_"+cfg)
	if err := copyFile(srcMod, base+".mod"); err != nil {
		return "", err
	}
	if err := copyFile(srcSum, base+".sum"); err != nil {
		return "", err
	}
	args := []string{"build", "-modfile=" + base + ".mod"}
	tags := "verif"
	if c.Tags != "" {
		tags += "," + c.Tags
	}
	args = append(args, "-tags", tags, "-o", out, pkg)
	cmd := exec.Command("go", args...)
	cmd.Dir = HarnessDir()
	env := []string{}
	for _, e := range os.Environ() {
		if strings.HasPrefix(e, "GOFLAGS=") || strings.HasPrefix(e, "GOPROXY=") || strings.HasPrefix(e, "CGO_ENABLED=") {
			continue
		}
		env = append(env, e)
	}
	env = append(env, "GOFLAGS=-mod=mod", "GOPROXY=off")
	env = append(env, c.Env...)
	cmd.Env = env
	if b, err := cmd.CombinedOutput(); err != nil {
		return "", fmt.Errorf("go %s (in %s, %v): %v\n%s", strings.Join(args, " "), cmd.Dir, c.Env, err, b)
	}
	buildMu.Lock()
	built[pkg+"|"+cfg] = out
	buildMu.Unlock()
	return out, nil
}

func copyFile(from, to string) error {
	b, err := os.ReadFile(from)
	if err != nil {
		return err
	}
	return os.WriteFile(to, b, 0o644)
}

func fileExists(p string) bool { _, err := os.Stat(p); return err == nil }

// Child is a running copy of a harness in `serve` mode
type Child struct {
	cmd *exec.Cmd
	in  io.WriteCloser
	out *bufio.Reader
	mu  sync.Mutex
}

// Spawn starts bin with args; requests and replies are single lines
func Spawn(bin string, args ...string) (*Child, error) {
	cmd := exec.Command(bin, args...)
	if f, err := os.Create(bin + ".stderr"); err == nil {
		cmd.Stderr = f
		defer f.Close()
	}
	in, err := cmd.StdinPipe()
	if err != nil {
		return nil, err
	}
	out, err := cmd.StdoutPipe()
	if err != nil {
		return nil, err
	}
	if err := cmd.Start(); err != nil {
		return nil, err
	}
	return &Child{cmd: cmd, in: in, out: bufio.NewReaderSize(out, 1<<20)}, nil
}

// Call sends one request line and reads one reply line
func (c *Child) Call(req []byte) ([]byte, error) {
	c.mu.Lock()
	defer c.mu.Unlock()
	if bytes.IndexByte(req, '\n') >= 0 {
		return nil, fmt.Errorf("request contains a newline")
	}
	if _, err := c.in.Write(append(append([]byte{}, req...), '\n')); err != nil {
		return nil, err
	}
	line, err := c.out.ReadBytes('\n')
	if err != nil {
		return nil, fmt.Errorf("child died: %v", err)
	}
	return bytes.TrimRight(line, "\n"), nil
}

// Close ends the child
func (c *Child) Close() {
	c.in.Close()
	_ = c.cmd.Wait()
}

// Serve is the child side: one reply line per request line
func Serve(handle func(req []byte) []byte) {
	r := bufio.NewReaderSize(os.Stdin, 1<<20)
	w := bufio.NewWriter(os.Stdout)
	for {
		line, err := r.ReadBytes('\n')
		if len(bytes.TrimSpace(line)) > 0 {
			w.Write(handle(bytes.TrimRight(line, "\n")))
			w.WriteByte('\n')
			w.Flush()
		}
		if err != nil {
			return
		}
	}
}

// Pool builds and starts children lazily, one per configuration. The own configuration is served by a second
// process of this very binary: the encoders never run inside the driving process, so that a crash of a C
// library (SIGSEGV cannot be recovered) is an observation, not the end of the run.
type Pool struct {
	Work, Pkg string
	mu        sync.Mutex
	kids      map[string]*Child
}

// Prebuild compiles all foreign configurations concurrently
func (p *Pool) Prebuild() error {
	var wg sync.WaitGroup
	errs := make([]error, len(Configs))
	for i, c := range Configs {
		if c.Name == Own() {
			continue
		}
		wg.Add(1)
		go func(i int, name string) {
			defer wg.Done()
			_, errs[i] = Build(p.Work, p.Pkg, name)
		}(i, c.Name)
	}
	wg.Wait()
	for _, e := range errs {
		if e != nil {
			return e
		}
	}
	return nil
}

// Get returns the running child of a configuration
func (p *Pool) Get(cfg string) (*Child, error) {
	p.mu.Lock()
	defer p.mu.Unlock()
	if p.kids == nil {
		p.kids = map[string]*Child{}
	}
	if k, ok := p.kids[cfg]; ok {
		return k, nil
	}
	var bin string
	var err error
	if cfg == Own() {
		bin, err = os.Executable() // this binary is the build of its own configuration
	} else {
		bin, err = Build(p.Work, p.Pkg, cfg)
	}
	if err != nil {
		return nil, err
	}
	k, err := Spawn(bin, "serve", "-work", p.Work, "-cfg", cfg)
	if err != nil {
		return nil, err
	}
	p.kids[cfg] = k
	return k, nil
}

// Drop forgets a child that died (the next Get starts a new one)
func (p *Pool) Drop(cfg string) {
	p.mu.Lock()
	defer p.mu.Unlock()
	if k, ok := p.kids[cfg]; ok {
		k.in.Close()
		_ = k.cmd.Wait()
		delete(p.kids, cfg)
	}
}

// CloseAll ends all children
func (p *Pool) CloseAll() {
	p.mu.Lock()
	defer p.mu.Unlock()
	for _, k := range p.kids {
		k.Close()
	}
	p.kids = nil
}

// ---------------------------------------------------------------- block generators

type sm struct{ s uint64 }

func (r *sm) u64() uint64 {
	r.s += 0x9E3779B97F4A7C15
	z := r.s
	z = (z ^ (z >> 30)) * 0xBF58476D1CE4E5B9
	z = (z ^ (z >> 27)) * 0x94D049BB133111EB
	return z ^ (z >> 31)
}
func (r *sm) intn(n int) int {
	if n <= 0 {
		return 0
	}
	return int(r.u64() % uint64(n))
}

// DataKinds are the block content classes
var DataKinds = []string{"const", "text", "random", "repeat", "mixed", "counters"}

// GenData is a pure function of (kind, size, seed)
func GenData(kind string, size int, seed uint64) []byte {
	r := &sm{s: seed*0x9E3779B97F4A7C15 + 77}
	b := make([]byte, size)
	switch kind {
	case "const":
		c := byte(r.u64())
		for i := range b {
			b[i] = c
		}
	case "text":
		words := []string{"tcp", "udp", "10.0.0.", "192.168.", "eth0", " ", ",", "\n", "443", "80", "53", "flow", "bytes", "packets"}
		i := 0
		for i < size {
			w := words[r.intn(len(words))]
			i += copy(b[i:], w)
		}
	case "random":
		for i := 0; i < size; i += 8 {
			v := r.u64()
			for j := 0; j < 8 && i+j < size; j++ {
				b[i+j] = byte(v >> (8 * j))
			}
		}
	case "repeat": // adversarial repeats: a random period replayed, with periods around the codecs' windows
		periods := []int{1, 2, 3, 4, 7, 8, 15, 16, 255, 256, 4095, 4096, 65535, 65536, 65537, 131072}
		p := periods[r.intn(len(periods))]
		if p > size && size > 0 {
			p = 1 + r.intn(size)
		}
		for i := 0; i < size && i < p; i++ {
			b[i] = byte(r.u64())
		}
		for i := p; i < size; i++ {
			b[i] = b[i-p]
		}
		if size > 0 && r.intn(2) == 0 { // one flipped byte breaks the last match
			b[size-1-r.intn(min(size, 13))] ^= 0x55
		}
	case "tile": // a 1000-byte text-like tile repeated by doubling copies: cheap to make even for 2^27 bytes
		i := copy(b, GenData("text", 1000, seed))
		for i > 0 && i < size {
			i += copy(b[i:], b[:i])
		}
	case "mixed": // compressible and incompressible stretches
		i := 0
		for i < size {
			n := 1 + r.intn(3000)
			if i+n > size {
				n = size - i
			}
			if r.intn(2) == 0 {
				c := byte(r.u64())
				for j := 0; j < n; j++ {
					b[i+j] = c
				}
			} else {
				for j := 0; j < n; j++ {
					b[i+j] = byte(r.u64())
				}
			}
			i += n
		}
	default: // "counters": bit-packed looking column data - small little-endian integers
		for i := 0; i+8 <= size; i += 8 {
			v := uint64(r.intn(1 << uint(1+r.intn(20))))
			for j := 0; j < 8; j++ {
				b[i+j] = byte(v >> (8 * j))
			}
		}
	}
	return b
}
