//go:build goprobe_nolibzstd

package xcfg

const noLibZstd = true
