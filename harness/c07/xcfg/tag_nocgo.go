//go:build !cgo

package xcfg

const cgoEnabled = false
