// C07 correspondence harness: every compressor restores exactly the bytes it was given.
//
// The real encoders (null, lz4, zstd) are run in ALL FOUR build configurations: this binary is the default
// cgo build; it builds itself again with CGO_ENABLED=0, -tags goprobe_noliblz4 and -tags goprobe_nolibzstd
// into the -work directory and drives those copies as child processes (mode `serve`, one JSON line per case).
// Payloads are never printed into Coq: per case the harness reports lengths, the returned count, the number
// of emitted bytes, whether the emitted bytes start with the scratch buffer's contents, and whether
// Decompress(emitted) gave back the input.
package main

import (
	"bytes"
	"encoding/json"
	"flag"
	"fmt"
	"io"
	"os"
	"path/filepath"
	"strconv"
	"time"

	"verifharness/c07/xcfg"
	"verifharness/vhlib"

	"github.com/els0r/goProbe/v4/pkg/goDB/encoder"
	"github.com/els0r/goProbe/v4/pkg/goDB/encoder/encoders"
)

type input struct {
	Cfg    string `json:"cfg"`   // cgo nocgo noliblz4 nolibzstd
	Enc    string `json:"enc"`   // null lz4 zstd
	Level  int    `json:"level"` // passed to SetLevel
	Kind   string `json:"kind"`  // data generator
	Size   int    `json:"size"`
	DSeed  uint64 `json:"dseed"`
	SNil   bool   `json:"snil"` // scratch buffer: nil, or make([]byte, slen, scap) filled with a pattern
	SLen   int    `json:"slen"`
	SCap   int    `json:"scap"`
	HasDst bool   `json:"has_dst"`
	Src    string `json:"src"`    // bytes file eager half one
	Rest   int    `json:"rest"`   // bytes following the block in the source
	OExtra int    `json:"oextra"` // cap(out) - len(out)
	Warm   bool   `json:"warm"`   // the encoder has compressed and decompressed another block before
	// the same Encoder is first asked to decompress a DAMAGED copy of the emitted bytes ("magic": bit flip in the
	// first byte, "mid": in the middle, "trunc": last 3 bytes missing); the result of that call is ignored
	PreBad string `json:"pre_bad,omitempty"`
}

type observed struct {
	Own     string `json:"own"`  // configuration of the binary that ran the case
	Impl    string `json:"impl"` // encoder variant linked into it
	CClass  string `json:"c_class"`
	N       int    `json:"n"`
	Emitted int    `json:"emitted"`
	Prefix  bool   `json:"scratch_prefix"`
	CErr    string `json:"c_err,omitempty"`
	DClass  string `json:"d_class"`
	DN      int    `json:"d_n"`
	DEq     bool   `json:"d_eq"`
	DErr    string `json:"d_err,omitempty"`
}

const minPrefix = 8

// ---------------------------------------------------------------- sources (all conforming io.Readers)

// eagerReader returns the final bytes together with io.EOF
type eagerReader struct{ b []byte }

func (r *eagerReader) Read(p []byte) (int, error) {
	n := copy(p, r.b)
	r.b = r.b[n:]
	if len(r.b) == 0 {
		return n, io.EOF
	}
	return n, nil
}

// chunkReader delivers at most f(len(p)) bytes per call; io.EOF when exhausted
type chunkReader struct {
	b []byte
	f func(int) int
}

func (r *chunkReader) Read(p []byte) (int, error) {
	if len(r.b) == 0 {
		return 0, io.EOF
	}
	k := r.f(len(p))
	if k > len(p) {
		k = len(p)
	}
	n := copy(p[:k], r.b)
	r.b = r.b[n:]
	return n, nil
}

func encType(s string) encoders.Type {
	switch s {
	case "lz4":
		return encoders.EncoderTypeLZ4
	case "zstd":
		return encoders.EncoderTypeZSTD
	}
	return encoders.EncoderTypeNull
}

func scratchOf(in input) []byte {
	if in.SNil {
		return nil
	}
	s := make([]byte, in.SCap)
	for i := range s {
		s[i] = byte(i*131+17) ^ 0x5A
	}
	return s[:in.SLen]
}

func class(panicked bool, err error) string {
	if panicked {
		return "panic"
	}
	if err != nil {
		return "err"
	}
	return "ok"
}

// execCase runs one case against the encoders linked into THIS binary
func execCase(in input, work string) observed {
	ob := observed{Own: xcfg.Own(), Impl: xcfg.Impl(in.Enc), DClass: "skip"}
	data := xcfg.GenData(in.Kind, in.Size, in.DSeed)
	orig := data
	if len(data) <= 1<<20 { // a private copy detects a Compress that modifies its input (small blocks only: time)
		orig = append([]byte{}, data...)
	}
	e, err := encoder.New(encType(in.Enc))
	if err != nil {
		ob.CClass, ob.CErr = "err", err.Error()
		return ob
	}
	defer e.Close()
	e.SetLevel(in.Level)

	if in.Warm { // context reuse: another block first, with another scratch buffer
		var w bytes.Buffer
		other := xcfg.GenData("text", 777, in.DSeed+1)
		if _, err := e.Compress(other, make([]byte, 10, 20), &w); err == nil {
			back := make([]byte, len(other))
			_, _ = e.Decompress(make([]byte, w.Len()), back, bytes.NewReader(w.Bytes()))
		}
	}

	scratch := scratchOf(in)
	var buf bytes.Buffer
	var dst io.Writer
	if in.HasDst {
		dst = &buf
	}
	var n int
	var cerr error
	p, msg := vhlib.Recover(func() { n, cerr = e.Compress(data, scratch, dst) })
	ob.CClass = class(p, cerr)
	if p {
		ob.CErr = msg
		return ob
	}
	if cerr != nil {
		ob.CErr = cerr.Error()
		return ob
	}
	em := buf.Bytes()
	ob.N, ob.Emitted = n, len(em)
	if len(scratch) >= minPrefix && len(em) >= len(scratch) {
		want := scratchOf(in)
		ob.Prefix = bytes.Equal(em[:len(want)], want)
	}
	if !bytes.Equal(data, orig) {
		ob.CClass, ob.CErr = "err", "Compress modified its input"
		return ob
	}
	if !in.HasDst {
		return ob
	}

	// Decompress what was emitted, from the requested kind of source, followed by `rest` more bytes
	stream := em
	if in.Rest > 0 {
		stream = append(append([]byte{}, em...), bytes.Repeat([]byte{0x77}, in.Rest)...)
	}
	inBuf := make([]byte, len(em))
	out := make([]byte, len(data)+in.OExtra)
	for i := range out {
		out[i] = 0xEE
	}
	out = out[:len(data)]
	var src io.Reader
	switch in.Src {
	case "file":
		fn := filepath.Join(work, "c07_src_"+xcfg.Own()+"_"+strconv.Itoa(os.Getpid())+".bin")
		if err := os.WriteFile(fn, stream, 0o600); err != nil {
			ob.DClass, ob.DErr = "err", "harness: "+err.Error()
			return ob
		}
		f, err := os.Open(fn)
		if err != nil {
			ob.DClass, ob.DErr = "err", "harness: "+err.Error()
			return ob
		}
		defer func() { f.Close(); os.Remove(fn) }()
		src = f
	case "eager":
		src = &eagerReader{b: stream}
	case "half":
		src = &chunkReader{b: stream, f: func(k int) int { return (k + 1) / 2 }}
	case "one":
		src = &chunkReader{b: stream, f: func(k int) int { return min(k, 1) }}
	default:
		src = bytes.NewReader(stream)
	}
	if in.PreBad != "" && len(em) > 3 {
		bad := append([]byte{}, em...)
		switch in.PreBad {
		case "magic":
			bad[0] ^= 0x40
		case "mid":
			bad[len(bad)/2] ^= 0x40
		default:
			bad = bad[:len(bad)-3]
		}
		scratchOut := make([]byte, len(data))
		vhlib.Recover(func() { _, _ = e.Decompress(make([]byte, len(bad)), scratchOut, bytes.NewReader(bad)) })
	}
	var dn int
	var derr error
	p, msg = vhlib.Recover(func() { dn, derr = e.Decompress(inBuf, out, src) })
	ob.DClass = class(p, derr)
	if p {
		ob.DErr = msg
		return ob
	}
	if derr != nil {
		ob.DErr = derr.Error()
		return ob
	}
	ob.DN = dn
	ob.DEq = dn >= 0 && dn <= len(out) && bytes.Equal(out[:dn], orig)
	return ob
}

// ---------------------------------------------------------------- generation

var cfgNames = xcfg.Names()
var encNames = []string{"null", "lz4", "zstd"}
var srcNames = []string{"bytes", "file", "eager", "half", "one"}
var smallSizes = []int{0, 1, 2, 3, 4, 5, 11, 12, 13, 14, 15, 16, 17, 63, 64, 65, 254, 255, 256, 257, 1023, 1024, 4095, 4096, 4097}
var midSizes = []int{8191, 8192, 8193, 16384, 32767, 32768, 65535, 65536, 65537}
var bigSizes = []int{131071, 131072, 131073, 200000, 262144, 300000, 307200}
var lz4Levels = []int{1, 2, 3, 4, 5, 6, 7, 8, 9, 10, 11, 12}
var zstdLevels = []int{1, 2, 3, 4, 5, 6, 7, 8, 9, 10, 11, 12, 13, 14, 15, 16, 17, 18, 19}

type shape struct {
	n        bool
	len, cap int
}

var shapes = []shape{{true, 0, 0}, {false, 0, 0}, {false, 0, 8192}, {false, 8192, 8192}, {false, 100, 100000}}

// bound is the worst-case frame size the wrappers size their buffer with (LZ4_compressBound =
// lz4.CompressBlockBound, ZSTD_compressBound); only used to place scratch capacities around it
func bound(enc string, n int) int {
	switch enc {
	case "lz4":
		return n + n/255 + 16
	case "zstd":
		b := n + n>>8
		if n < 128<<10 {
			b += (128<<10 - n) >> 11
		}
		return b
	}
	return n
}

// scratch capacities RELATIVE to the input: just around len(data) and just around the bound, i.e. buffers
// that can hold the input but not (or just) the worst-case frame
var relNames = []string{"n-1", "n", "n+1", "n+8", "b-1", "b", "b+1"}

func relCap(enc string, n int, rel string) int {
	c := map[string]int{"n-1": n - 1, "n": n, "n+1": n + 1, "n+8": n + 8,
		"b-1": bound(enc, n) - 1, "b": bound(enc, n), "b+1": bound(enc, n) + 1}[rel]
	return max(c, 0)
}

// relPrefix: incompressible (and a few compressible) blocks with a scratch buffer sized relative to them, for
// lz4 and zstd in their cgo (cfg cgo) and native (cfg nocgo) variants, levels spread over the range
func relPrefix(k int) input {
	if k >= 36 { // 4 large ones
		k -= 36
		e := []string{"lz4", "zstd"}[k%2]
		in := input{Cfg: []string{"cgo", "nocgo"}[k/2], Enc: e, Level: 3 + 4*k, Kind: "random", Size: 200000,
			DSeed: uint64(1000 + k), HasDst: true, Src: "file"}
		in.SCap = relCap(e, in.Size, []string{"n+8", "n+1"}[k%2])
		in.SLen = in.SCap * (k / 2)
		return in
	}
	e := []string{"lz4", "zstd"}[k%2]
	c := []string{"cgo", "nocgo"}[(k/2)%2]
	size := []int{64, 4096, 16380}[(k/4)%3]
	rel := []string{"n+1", "n+8", "b-1"}[k/12]
	in := input{Cfg: c, Enc: e, Level: 1 + (k*5)%12, Kind: "random", Size: size, DSeed: uint64(500 + k), HasDst: true,
		Src: []string{"bytes", "file"}[k%2]}
	if k%9 == 8 {
		in.Kind = "text"
	}
	in.SCap = relCap(e, size, rel)
	if (k/2)%2 == 1 || k%3 == 0 {
		in.SLen = in.SCap
	}
	return in
}

const nRelPrefix = 40

// size ladder far beyond the usual block sizes: around 128 KiB (zstd block size), 1 MiB, 8 MiB (a common memory
// limit of decoders), 16 MiB, 64 MiB; and the zstd window sizes 2^10 .. 2^27 (+1: one byte more than a window).
// Above `big_threshold` of Corr.v the Coq side uses the proved closed form of the model, so these cost Go time only;
// the patterns are compressible (const / text / counters) to keep that small, a few incompressible ones <= 8 MiB+1.
var ladder = []int{131071, 131072, 131073, 1<<20 - 1, 1 << 20, 1<<20 + 1, 8<<20 - 1, 8 << 20, 8<<20 + 1, 16<<20 + 1, 64<<20 + 1}

const nLadder = 4 * 3 * 11 // configuration x encoder x size
const nWindows = 4*17 + 2  // configuration x 2^10+1 .. 2^26+1, and 2^27+1 for cgo and nocgo

func bigKind(size, salt int) string {
	if salt%5 == 0 && (size <= 1<<20+1 || (size == 8<<20+1 && salt%10 == 0)) { // incompressible: a few, HC levels are slow on them
		return "random"
	}
	if size > 1<<20+1 {
		return "tile" // cheap to generate; (one huge run of a single byte is very slow in klauspost's decoder)
	}
	return []string{"const", "text", "counters"}[salt%3]
}

func ladderCase(k int, heavy bool) input {
	ci, ei, si := k/33, (k/11)%3, k%11
	if !heavy { // the quick tier has to stay around 100 s: one rung each for everybody, the +-1 neighbours once
		switch {
		case si == 10 && !(ei == 2 && ci < 2): // 64 MiB+1: zstd under cgo and nocgo only
			return input{Cfg: cfgNames[ci], Enc: encNames[ei], Level: 6, Kind: "tile", Size: 1<<20 + 3 + k, DSeed: uint64(2000 + k),
				HasDst: true, Src: "bytes", SLen: 8192, SCap: 8192}
		case (si == 0 || si == 2 || si == 3 || si == 4 || si == 6) && ci != (ei+si)%4:
			return input{Cfg: cfgNames[ci], Enc: encNames[ei], Level: 6, Kind: "mixed", Size: 1 + ladder[si]%4093, DSeed: uint64(2000 + k),
				HasDst: true, Src: "file", SLen: 8192, SCap: 8192}
		}
	}
	kind := bigKind(ladder[si], ci+ei+si)
	return input{Cfg: cfgNames[ci], Enc: encNames[ei], Level: 6, Kind: kind, Size: ladder[si],
		DSeed: uint64(2000 + k), HasDst: true, Src: []string{"file", "bytes", "half"}[k%3],
		SLen: 8192 * (k % 2), SCap: 8192, OExtra: 64 * (k % 2)}
}

func b2i(b bool) int {
	if b {
		return 1
	}
	return 0
}

func windowCase(k int, heavy bool) input {
	if k >= 4*17 {
		if !heavy { // 2^27+1 only in the thorough tier and the search rounds
			return input{Cfg: []string{"cgo", "nocgo"}[k-4*17], Enc: "zstd", Level: 3, Kind: "text", Size: 1<<22 + 1,
				DSeed: uint64(3000 + k), HasDst: true, Src: "bytes", SLen: 8192, SCap: 8192}
		}
		return input{Cfg: []string{"cgo", "nocgo"}[k-4*17], Enc: "zstd", Level: 3, Kind: "tile", Size: 1<<27 + 1,
			DSeed: uint64(3000 + k), HasDst: true, Src: "bytes", SLen: 8192, SCap: 8192}
	}
	ci, e := k/17, 10+k%17
	if !heavy { // quick tier: up to 2^24+1 for cgo and nocgo, 2^25+1 / 2^26+1 for nocgo, up to 2^20+1 for the others
		if ci >= 2 && e > 20 {
			e -= 9
		} else if ci == 0 && e > 24 {
			e -= 6
		}
	}
	lvl := 1 + (k*7)%19
	if e > 20 {
		lvl = 1 + k%6
	}
	return input{Cfg: cfgNames[ci], Enc: "zstd", Level: lvl, Kind: []string{"const", "text", "tile", "tile"}[k%2+2*b2i(e > 20)], Size: 1<<e + 1,
		DSeed: uint64(3000 + k), HasDst: true, Src: []string{"bytes", "file"}[k%2], SLen: 8192, SCap: 8192}
}

func gen(r *vhlib.Rand, i int, o vhlib.Opts) any {
	// deterministic prefix: per configuration and encoder the empty block, one byte, and a block written
	// the way GPFile does it (scratch of length 8192, *os.File source)
	if i < 36 {
		c, e, k := cfgNames[i/9], encNames[(i/3)%3], i%3
		in := input{Cfg: c, Enc: e, Level: 6, Kind: "text", HasDst: true, DSeed: uint64(i)}
		switch k {
		case 0:
			in.Size, in.SLen, in.SCap, in.Src = 0, 8192, 8192, "bytes"
		case 1:
			in.Size, in.SNil, in.Src = 1, true, "eager"
		default:
			in.Size, in.SLen, in.SCap, in.Src, in.Rest, in.OExtra = 5000, 8192, 8192, "file", 64, 8192-5000
		}
		return in
	}
	if i < 36+nRelPrefix {
		return relPrefix(i - 36)
	}
	if i < 36+nRelPrefix+nLadder {
		return ladderCase(i-36-nRelPrefix, o.Search || o.Tier == "thorough")
	}
	if i < 36+nRelPrefix+nLadder+nWindows {
		return windowCase(i-36-nRelPrefix-nLadder, o.Search || o.Tier == "thorough")
	}
	if i < 36+nRelPrefix+nLadder+nWindows+24 { // a failed Decompress must not spoil the Encoder: cfg x {lz4, zstd} x mode
		k := i - 36 - nRelPrefix - nLadder - nWindows
		return input{Cfg: cfgNames[k%4], Enc: []string{"zstd", "lz4"}[(k/4)%2], Level: 6, Kind: []string{"text", "counters", "tile"}[k%3],
			Size: 700 + 900*k, DSeed: uint64(9000 + k), HasDst: true, Src: []string{"bytes", "file"}[k%2], SLen: 8192, SCap: 8192,
			PreBad: []string{"magic", "mid", "trunc"}[k/8]}
	}
	in := input{Cfg: vhlib.Pick(r, cfgNames), HasDst: true, DSeed: r.U64() >> 16}
	switch x := r.Intn(100); {
	case x < 15:
		in.Enc = "null"
	case x < 55:
		in.Enc = "lz4"
	default:
		in.Enc = "zstd"
	}
	switch in.Enc {
	case "lz4":
		in.Level = vhlib.Pick(r, lz4Levels)
	case "zstd":
		in.Level = vhlib.Pick(r, zstdLevels)
	default:
		in.Level = r.Intn(20)
	}
	if r.Chance(3) { // the default level is what SetLevel is not called for; 0 = the library's default
		in.Level = 0
	}
	in.Kind = vhlib.Pick(r, xcfg.DataKinds)
	// evaluating the model on a 300 KiB block costs seconds of vm_compute: the quick tier keeps a few of
	// them per run, the thorough tier and the search rounds many
	bigP, midP := 4, 14
	if o.Search || o.Tier == "thorough" {
		bigP, midP = 12, 30
	}
	switch x := r.Intn(100); {
	case x < 6:
		in.Size = 0
	case x < 6+bigP:
		if r.Bool() {
			in.Size = vhlib.Pick(r, bigSizes)
		} else {
			in.Size = 65536 + r.Intn(307200-65536+1)
		}
	case x < 6+bigP+midP:
		if r.Bool() {
			in.Size = vhlib.Pick(r, midSizes)
		} else {
			in.Size = 4096 + r.Intn(65536-4096)
		}
	default:
		if r.Bool() {
			in.Size = vhlib.Pick(r, smallSizes)
		} else {
			in.Size = r.Intn(4097)
		}
	}
	if r.Chance(10) { // log-uniform in [1, 2^26] (quick tier: 2^23)
		top := 23
		if o.Search || o.Tier == "thorough" {
			top = 26
		}
		in.Size = 1 << uint(r.Intn(top))
		in.Size += r.Intn(in.Size + 1)
		if in.Size > 1<<20 { // keep the run time small: compressible contents, moderate levels
			in.Kind = "tile"
			in.Level = 1 + r.Intn(6)
		}
	}
	if r.Chance(25) { // relative to the input; mostly incompressible data, where the frame exceeds len(data)
		if r.Chance(60) && in.Size <= 1<<20 {
			in.Kind = "random"
		}
		in.SCap = relCap(in.Enc, in.Size, vhlib.Pick(r, relNames))
		if r.Bool() {
			in.SLen = in.SCap
		}
	} else if r.Chance(70) {
		s := vhlib.Pick(r, shapes)
		in.SNil, in.SLen, in.SCap = s.n, s.len, s.cap
	} else {
		in.SCap = r.Intn(20001)
		in.SLen = r.Intn(in.SCap + 1)
		if r.Bool() {
			in.SLen = in.SCap
		}
	}
	in.Src = vhlib.Pick(r, srcNames)
	if in.Src == "one" && in.Size > 1024 { // read_full of the model is quadratic for the one-byte reader
		in.Src = vhlib.Pick(r, srcNames[:4])
	}
	in.Rest = vhlib.Pick(r, []int{0, 0, 0, 5, 1000})
	in.OExtra = vhlib.Pick(r, []int{0, 0, 64, 8192})
	in.Warm = r.Chance(30)
	if in.Enc != "null" && in.Size <= 1<<20 && r.Chance(10) {
		in.PreBad = vhlib.Pick(r, []string{"magic", "mid", "trunc"})
	}
	if in.Enc != "null" && r.Chance(4) {
		in.HasDst = false
	}
	return in
}

// ---------------------------------------------------------------- run: route to the right build, print Coq

var pool *xcfg.Pool
var prebuilt bool

func observe(raw json.RawMessage, in input, o vhlib.Opts) (observed, error) {
	if pool == nil {
		pool = &xcfg.Pool{Work: o.Work, Pkg: "./c07"}
	}
	if o.Mode == "gen" && !prebuilt {
		prebuilt = true
		if err := pool.Prebuild(); err != nil {
			return observed{}, err
		}
	}
	k, err := pool.Get(in.Cfg)
	if err != nil {
		return observed{}, err
	}
	rep, err := k.Call(raw)
	if err != nil {
		// the process running the encoders died (e.g. SIGSEGV inside a C library): that is the observation
		pool.Drop(in.Cfg)
		return observed{Own: in.Cfg, Impl: implOf(in.Cfg, in.Enc), CClass: "panic", DClass: "skip",
			CErr: "the process running the encoder crashed (see vh_c07_*.stderr in the work directory)"}, nil
	}
	var ob observed
	if err := json.Unmarshal(rep, &ob); err != nil {
		return observed{}, fmt.Errorf("bad reply from %s child: %v: %s", in.Cfg, err, rep)
	}
	if ob.Own != in.Cfg {
		return observed{}, fmt.Errorf("child built for %s reports configuration %s", in.Cfg, ob.Own)
	}
	return ob, nil
}

// implOf is only used to label a crashed case (the child could not report what it links)
func implOf(cfg, enc string) string {
	if enc == "null" || cfg == "nocgo" || cfg == "no"+"lib"+enc {
		return "native"
	}
	return "cgo"
}

var coqCfg = map[string]string{"cgo": "CfgCgo", "nocgo": "CfgNoCgo", "noliblz4": "CfgNoLibLz4", "nolibzstd": "CfgNoLibZstd"}
var coqEnc = map[string]string{"null": "ENull", "lz4": "ELz4", "zstd": "EZstd"}
var coqSrc = map[string]string{"bytes": "RBytes", "file": "RFile", "eager": "REager", "half": "RHalf", "one": "ROne"}
var coqClass = map[string]uint64{"ok": 0, "err": 1, "panic": 2, "skip": 3}

func bucket(n int) string {
	switch {
	case n == 0:
		return "0"
	case n <= 16:
		return "1-16"
	case n <= 4096:
		return "17-4K"
	case n <= 65536:
		return "4K-64K"
	case n <= 400000:
		return "64K-400K"
	case n <= 8<<20:
		return "400K-8M"
	}
	return ">8M"
}

func run(raw json.RawMessage, o vhlib.Opts) (*vhlib.Case, error) {
	var in input
	if err := json.Unmarshal(raw, &in); err != nil {
		return nil, err
	}
	if os.Getenv("VH_TIMING") != "" { // per-case wall time on stderr (development aid)
		t0 := time.Now()
		defer func() {
			fmt.Fprintf(os.Stderr, "%8.3fs %s\n", time.Since(t0).Seconds(), in.Enc+" "+in.Cfg+" "+strconv.Itoa(in.Size)+" "+in.Kind)
		}()
	}
	if _, ok := coqCfg[in.Cfg]; !ok {
		return nil, fmt.Errorf("unknown configuration %q", in.Cfg)
	}
	if in.SNil {
		in.SLen, in.SCap = 0, 0
	}
	ob, err := observe(raw, in, o)
	if err != nil {
		return nil, err
	}
	impl := "Native"
	switch ob.Impl {
	case "cgo":
		impl = "Cgo"
	case "native":
	default:
		return nil, fmt.Errorf("configuration %s links an unexpected %s encoder: %s", in.Cfg, in.Enc, ob.Impl)
	}
	sh := fmt.Sprintf("scratch(%d,%d)", in.SLen, in.SCap)
	if in.SNil {
		sh = "scratch-nil"
	} else if in.SCap != 8192 && in.SCap != 100000 && in.SCap != 0 {
		sh = "scratch-random"
		if b := bound(in.Enc, in.Size); in.SCap >= in.Size-1 && in.SCap <= b+1 {
			sh = "scratch-rel:data<=cap<bound"
			if in.SCap >= b {
				sh = "scratch-rel:cap~bound"
			} else if in.SCap < in.Size {
				sh = "scratch-rel:cap<data"
			}
		}
	}
	c := &vhlib.Case{Observed: ob,
		Tags: []string{"cfg:" + in.Cfg, "enc:" + in.Enc, in.Enc + ":" + ob.Impl, "kind:" + in.Kind, "size:" + bucket(in.Size),
			sh, "src:" + in.Src, "c:" + ob.CClass, "d:" + ob.DClass},
		Nontrivial: ob.CClass == "ok" && in.HasDst && in.Size > 0}
	if !in.HasDst {
		c.Tags = append(c.Tags, "dst-nil")
	}
	if in.PreBad != "" {
		c.Tags = append(c.Tags, "after-failed-decompress:"+in.PreBad)
	}
	if in.Warm {
		c.Tags = append(c.Tags, "warm")
	}
	c.Coq = fmt.Sprintf("Case %s %s %s %s %s %s %s %s %s %s %s %s %s %s %s %s %s %s",
		coqCfg[in.Cfg], coqEnc[in.Enc], impl, vhlib.CoqZ(int64(in.Level)),
		vhlib.CoqN(uint64(in.Size)), vhlib.CoqN(uint64(in.SLen)), vhlib.CoqN(uint64(in.SCap)), vhlib.CoqBool(in.HasDst),
		coqSrc[in.Src], vhlib.CoqN(uint64(in.Rest)), vhlib.CoqN(uint64(in.OExtra)),
		vhlib.CoqN(coqClass[ob.CClass]), vhlib.CoqZ(int64(ob.N)), vhlib.CoqN(uint64(ob.Emitted)), vhlib.CoqBool(ob.Prefix),
		vhlib.CoqN(coqClass[ob.DClass]), vhlib.CoqZ(int64(ob.DN)), vhlib.CoqBool(ob.DEq))
	return c, nil
}

func main() {
	if len(os.Args) > 1 && os.Args[1] == "serve" {
		fs := flag.NewFlagSet("serve", flag.ExitOnError)
		work := fs.String("work", ".", "")
		_ = fs.String("cfg", "", "")
		_ = fs.Parse(os.Args[2:])
		xcfg.Serve(func(req []byte) []byte {
			var in input
			if err := json.Unmarshal(req, &in); err != nil {
				return []byte(`{"own":"bad-request"}`)
			}
			if in.SNil {
				in.SLen, in.SCap = 0, 0
			}
			b, _ := json.Marshal(execCase(in, *work))
			return b
		})
		return
	}
	vhlib.Main(gen, run)
	if pool != nil {
		pool.CloseAll()
	}
}
