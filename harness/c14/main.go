// C14 correspondence harness: results.By(...).Sort and the row limit (Statement.PostProcess, or the
// distributed finalizeResult) on every permutation of small row multisets and on shuffles of large
// ones. Observed = the DISTINCT outputs over all tried input orders, as indices into the base list.
package main

import (
	"context"
	"encoding/json"
	"fmt"
	"math/big"
	"net/netip"
	"strconv"
	"strings"
	"time"

	"verifharness/vhlib"

	gqdist "github.com/els0r/goProbe/v4/cmd/global-query/pkg/distributed"
	"github.com/els0r/goProbe/v4/pkg/query"
	"github.com/els0r/goProbe/v4/pkg/results"
	"github.com/els0r/goProbe/v4/pkg/types"
)

type rowIn struct {
	Sec    int64     `json:"sec"` // Unix seconds; zeroSec = the zero time.Time
	Zone   int       `json:"zone"`
	Host   string    `json:"host"`
	HostID string    `json:"host_id"`
	Iface  string    `json:"iface"`
	Sip    string    `json:"sip"`
	Dip    string    `json:"dip"`
	Proto  uint8     `json:"proto"`
	Dport  uint16    `json:"dport"`
	C      [4]uint64 `json:"c"` // bytes rcvd, bytes sent, packets rcvd, packets sent
}

type input struct {
	K         int     `json:"sort"`
	D         int     `json:"direction"`
	Asc       bool    `json:"asc"`
	Limit     uint64  `json:"limit"`
	Path      string  `json:"path"` // "pp": By.Sort + PostProcess; "fin": distributed finalizeResult
	Bound     uint64  `json:"bound,omitempty"`
	Rows      []rowIn `json:"rows"`
	TimeLabel bool    `json:"time_label,omitempty"` // Statement.LabelSelector.Timestamp
	BinSec    int64   `json:"bin_sec,omitempty"`    // Statement.TimeBinSize in seconds (binning runs unless 300)
	Shuffles  int     `json:"shuffles"`             // 0 = every permutation (len(rows) <= 6 only)
	ShSeed    uint64  `json:"shuffle_seed,omitempty"`
}

const zeroSec = -62135596800

// zone ids: pairwise distinct *time.Location pointers. 1, 2 and 3 share an offset, so do 5 and 6.
// (time.FixedZone("", whole hours) returns one cached pointer per offset - hence the names for 2 and 3;
// other offsets allocate per call: 5 and 6 are what decoding "+05:30" twice yields)
var locs = []*time.Location{time.UTC, time.FixedZone("", 3600), time.FixedZone("+01", 3600), time.FixedZone("CET", 3600),
	time.FixedZone("", -7200), time.FixedZone("", 19800), time.FixedZone("", 19800)}

func init() {
	for i, a := range locs {
		for _, b := range locs[:i] {
			if a == b {
				panic("zone table: two ids share a *time.Location")
			}
		}
	}
}

var secs = []int64{1700000000, 1700000000, 1700000300, 1700000600, 1699999700, zeroSec, 0, 1}
var hosts = []string{"", "hostA", "hostB", "host", "hostAA"}
var hostids = []string{"", "1", "2", "10", "123456"}
var ifaces = []string{"eth0", "eth1", "", "eth10", "t4"}
var addrs = []string{"", "10.0.0.1", "10.0.0.2", "255.255.255.255", "0.0.0.0", "9.255.255.255", "::", "::1", "2001:db8::1",
	"::ffff:10.0.0.1", "fe80::1%eth0", "fe80::1%eth1", "fe80::1", "ffff:ffff:ffff:ffff:ffff:ffff:ffff:ffff"}
var protos = []uint8{0, 6, 17, 255}
var ports = []uint16{0, 53, 80, 65535}
var cnts = []uint64{0, 1, 2, 3, 100, 1500, 1 << 32, 1 << 62}
var bigs = []uint64{1 << 63, 1<<63 + 1, ^uint64(0), ^uint64(0) - 1, 1<<63 - 1}

func genRow(r *vhlib.Rand, spread int) rowIn {
	pk := func(n int) int {
		if n > spread {
			n = spread
		}
		return r.Intn(n)
	}
	ri := rowIn{Sec: secs[pk(len(secs))], Zone: r.Intn(len(locs)), Host: hosts[pk(len(hosts))], HostID: hostids[pk(len(hostids))],
		Iface: ifaces[pk(len(ifaces))], Sip: addrs[r.Intn(len(addrs))], Dip: addrs[pk(len(addrs))],
		Proto: protos[pk(len(protos))], Dport: ports[pk(len(ports))]}
	if ri.Sec == zeroSec {
		ri.Zone = 0
	}
	for i := range ri.C {
		ri.C[i] = cnts[pk(len(cnts))]
		if r.Chance(4) {
			ri.C[i] = vhlib.Pick(r, bigs)
		}
	}
	return ri
}

// identity of a row for ordering purposes: labels (timestamp as an instant) and attributes
func keyOf(ri rowIn) string {
	return fmt.Sprintf("%d|%s|%s|%s|%s|%s|%d|%d", ri.Sec, ri.Host, ri.HostID, ri.Iface, canonAddr(ri.Sip), canonAddr(ri.Dip), ri.Proto, ri.Dport)
}
func canonAddr(s string) string {
	if s == "" {
		return ""
	}
	return netip.MustParseAddr(s).String()
}

// rows whose key repeats an earlier one become exact copies of it (a genuine duplicate) or are dropped:
// rows that agree on all labels and attributes but differ in counters or zone are tied by design
func normalise(r *vhlib.Rand, rows []rowIn, keepDup bool) []rowIn {
	seen := map[string]rowIn{}
	var out []rowIn
	for _, ri := range rows {
		k := keyOf(ri)
		if first, ok := seen[k]; ok {
			if keepDup && r.Chance(50) {
				out = append(out, first)
			}
			continue
		}
		seen[k] = ri
		out = append(out, ri)
	}
	return out
}

func fixedCases() []input {
	t := int64(1700000000)
	a := rowIn{Sec: t, Zone: 0, Host: "hostA", HostID: "1", Iface: "eth0", Sip: "10.0.0.1", Dip: "10.0.0.2", Proto: 6, Dport: 80, C: [4]uint64{10, 20, 1, 2}}
	mod := func(f func(*rowIn)) rowIn { b := a; f(&b); return b }
	zoneIface := []rowIn{a, mod(func(b *rowIn) { b.Zone = 1; b.Iface = "eth1" }), mod(func(b *rowIn) { b.Zone = 4; b.Iface = "eth2" })}
	samePtr := []rowIn{mod(func(b *rowIn) { b.Zone = 5 }), mod(func(b *rowIn) { b.Zone = 6; b.Iface = "eth1" }), mod(func(b *rowIn) { b.Zone = 2; b.Iface = "eth2" })}
	hostID := []rowIn{a, mod(func(b *rowIn) { b.HostID = "2" }), mod(func(b *rowIn) { b.HostID = "10" })}
	v46 := []rowIn{a, mod(func(b *rowIn) { b.Sip = "::ffff:10.0.0.1" }), mod(func(b *rowIn) { b.Sip = "" }), mod(func(b *rowIn) { b.Sip = "::" }),
		mod(func(b *rowIn) { b.Sip = "fe80::1%eth1" }), mod(func(b *rowIn) { b.Sip = "fe80::1%eth0" })}
	wrap := []rowIn{mod(func(b *rowIn) { b.C = [4]uint64{1 << 63, 1 << 63, 1 << 63, 1 << 63} }),
		mod(func(b *rowIn) { b.Iface = "eth1"; b.C = [4]uint64{^uint64(0), 2, ^uint64(0), 2} }),
		mod(func(b *rowIn) { b.Iface = "eth2"; b.C = [4]uint64{0, 1, 0, 1} }), mod(func(b *rowIn) { b.Iface = "eth3"; b.C = [4]uint64{5, 0, 5, 0} })}
	dups := []rowIn{a, a, mod(func(b *rowIn) { b.Dport = 53 }), a}
	times := []rowIn{a, mod(func(b *rowIn) { b.Sec = t + 300; b.Zone = 1 }), mod(func(b *rowIn) { b.Sec = t - 300; b.Zone = 5 }), mod(func(b *rowIn) { b.Sec = zeroSec }),
		mod(func(b *rowIn) { b.Sec = t + 300; b.Zone = 4; b.Host = "hostB" })}
	var cs []input
	for _, rows := range [][]rowIn{zoneIface, samePtr, hostID} {
		for _, k := range []int{3, 2, 1} {
			for _, asc := range []bool{true, false} {
				cs = append(cs, input{K: k, D: 1, Asc: asc, Limit: 2, Path: "pp", Rows: rows})
			}
		}
		cs = append(cs, input{K: 3, D: 1, Asc: true, Limit: 2, Path: "fin", Bound: 100, Rows: rows})
	}
	for d := 1; d <= 4; d++ {
		for _, k := range []int{1, 2} {
			cs = append(cs, input{K: k, D: d, Asc: d%2 == 0, Limit: 3, Path: "pp", Rows: wrap})
			cs = append(cs, input{K: k, D: d, Asc: d%2 == 1, Limit: 1, Path: "pp", Rows: times})
		}
	}
	for _, asc := range []bool{true, false} {
		cs = append(cs, input{K: 2, D: 4, Asc: asc, Limit: 4, Path: "pp", Rows: v46})
		cs = append(cs, input{K: 3, D: 0, Asc: asc, Limit: 0, Path: "pp", Rows: times})
		cs = append(cs, input{K: 1, D: 2, Asc: asc, Limit: 3, Path: "pp", Rows: dups})
	}
	// pairs of rows that differ in exactly one label or attribute: every branch of the Less methods decides once
	for _, b := range []rowIn{mod(func(b *rowIn) { b.Sip = "10.0.0.2" }), mod(func(b *rowIn) { b.Dip = "10.0.0.1" }), mod(func(b *rowIn) { b.Dip = "::ffff:10.0.0.2" }),
		mod(func(b *rowIn) { b.Proto = 17 }), mod(func(b *rowIn) { b.Dport = 443 }), mod(func(b *rowIn) { b.Host = "hostB" }),
		mod(func(b *rowIn) { b.HostID = "10" }), mod(func(b *rowIn) { b.Iface = "eth1" }), mod(func(b *rowIn) { b.Sec = t + 300 })} {
		cs = append(cs, input{K: 3, D: 1, Asc: true, Limit: 1, Path: "pp", Rows: []rowIn{a, b}})
		cs = append(cs, input{K: 2, D: 4, Asc: false, Limit: 1, Path: "fin", Bound: 1, Rows: []rowIn{b, a}})
	}
	// time label + time resolution: PostProcess re-bins BEFORE the limit. 24 five-minute rows on two interfaces
	// over two hours -> 4 rows at 1h and at 1d, 24 at 10m/5m/0; limits below / between / above both counts
	var series []rowIn
	for j := 1; j <= 12; j++ {
		series = append(series, mod(func(b *rowIn) {
			b.Sec = binBase + int64(600*j-300)
			b.Zone = j % len(locs)
			b.C = [4]uint64{uint64(j), 1, 2, 3}
		}))
		series = append(series, mod(func(b *rowIn) {
			b.Sec = binBase + int64(600*j)
			b.Iface = "eth1"
			b.C = [4]uint64{1 << 63, uint64(j), 0, 1}
		}))
	}
	for _, bin := range []int64{3600, 86400, 600, 0, 300} {
		for _, lim := range []uint64{2, 3, 4, 5, 20, 23, 24, 25, 1000} {
			if bin != 3600 && lim != 2 && lim != 20 && lim != 1000 {
				continue
			}
			cs = append(cs, input{K: 3, D: 1, Asc: true, Limit: lim, Path: "pp", Rows: series, TimeLabel: true, BinSec: bin, Shuffles: 6, ShSeed: lim})
			cs = append(cs, input{K: 3, D: 1, Asc: true, Limit: lim, Path: "fin", Bound: lim, Rows: series, TimeLabel: true, BinSec: bin, Shuffles: 6, ShSeed: lim})
			cs = append(cs, input{K: 3, D: 1, Asc: true, Limit: 1000, Path: "fin", Bound: lim, Rows: series, TimeLabel: true, BinSec: bin, Shuffles: 6, ShSeed: lim})
		}
	}
	// limits around the length, both paths; empty input
	for _, lim := range []uint64{0, 1, 4, 5, 6, 1000, ^uint64(0)} {
		cs = append(cs, input{K: 3, D: 1, Asc: true, Limit: lim, Path: "pp", Rows: times})
		cs = append(cs, input{K: 2, D: 3, Asc: false, Limit: lim, Path: "fin", Bound: lim, Rows: times})
		cs = append(cs, input{K: 2, D: 3, Asc: false, Limit: lim, Path: "fin", Bound: 2, Rows: times})
	}
	cs = append(cs, input{K: 1, D: 1, Asc: true, Limit: 5, Path: "pp"}, input{K: 1, D: 1, Asc: true, Limit: 5, Path: "fin", Bound: 100})
	// outside the enumerations: By panics
	for _, kd := range [][2]int{{0, 1}, {4, 1}, {1, 0}, {2, 5}, {-1, -1}, {1, -3}} {
		cs = append(cs, input{K: kd[0], D: kd[1], Asc: true, Limit: 2, Path: "pp", Rows: hostID})
	}
	cs = append(cs, input{K: 0, D: 1, Asc: false, Limit: 2, Path: "fin", Bound: 100, Rows: hostID})
	return cs
}

var fixed = fixedCases()

const binBase = 1699999200 // a multiple of 3600

// end of the bin of sec (the specification: smallest multiple of bin that is >= sec)
func binEnd(sec, bin int64) int64 {
	if bin <= 0 || sec == zeroSec {
		return sec
	}
	q := sec / bin
	if sec%bin != 0 && sec > 0 {
		q++
	}
	return q * bin
}

// a time query with a time resolution: several 5-minute rows per bin on a few label/attribute variants
func genBinned(r *vhlib.Rand, o vhlib.Opts) input {
	in := input{K: 3, D: vhlib.Pick(r, []int{1, 2, 3, 4}), Asc: true, Path: "pp", TimeLabel: true,
		BinSec: vhlib.Pick(r, []int64{0, 300, 600, 600, 3600, 3600, 3600, 86400, 86400})}
	span := 30
	if in.BinSec == 86400 {
		span = 700
	}
	n := 3 + r.Intn(38)
	variants := 1 + r.Intn(3)
	rows := make([]rowIn, 0, n)
	for len(rows) < n {
		ri := genRow(r, 2)
		v := r.Intn(variants)
		ri.Iface, ri.Host, ri.HostID, ri.Dip, ri.Proto, ri.Dport = ifaces[v], "hostA", "1", "10.0.0.2", 6, 80
		ri.Sip = addrs[1+v]
		ri.Sec = binBase + 300*int64(r.Intn(span)) - 86400*int64(r.Intn(2))
		ri.Zone = r.Intn(len(locs))
		if r.Chance(3) {
			ri.Sec, ri.Zone = zeroSec, 0
		}
		rows = append(rows, ri)
	}
	rows = normalise(r, rows, false)
	n = len(rows)
	groups := map[string]bool{}
	for _, ri := range rows {
		b := ri
		b.Sec = binEnd(ri.Sec, in.BinSec)
		groups[keyOf(b)] = true
	}
	g := len(groups)
	if in.BinSec == 300 {
		g = n
	}
	in.Rows = rows
	if n > 6 {
		in.Shuffles = 10
	}
	in.ShSeed = r.U64()
	in.Limit = vhlib.Pick(r, []uint64{0, 1, uint64(max(g-1, 1)), uint64(g), uint64(g + 1), uint64((g + n + 1) / 2), uint64((g + n + 1) / 2), uint64(max(n-1, 1)), uint64(n), uint64(n + 1), 1000, ^uint64(0)})
	if r.Chance(55) {
		in.Path = "fin"
		in.Bound = vhlib.Pick(r, []uint64{in.Limit, in.Limit, 100, 2, uint64(g), uint64((g + n + 1) / 2)})
		if r.Chance(30) { // as through Args: time queries ask for MaxResults, the streaming bound decides
			in.Limit = 9999999999999
		}
	}
	return in
}

func gen(r *vhlib.Rand, i int, o vhlib.Opts) any {
	if i < len(fixed) {
		return fixed[i]
	}
	if r.Chance(22) {
		return genBinned(r, o)
	}
	in := input{K: vhlib.Pick(r, []int{1, 2, 3}), D: vhlib.Pick(r, []int{1, 2, 3, 4}), Asc: r.Bool(), Path: "pp"}
	if r.Chance(10) { // time label selected, default resolution: no re-binning
		in.TimeLabel, in.BinSec = true, 300
	}
	if r.Chance(3) {
		in.K = vhlib.Pick(r, []int{0, 4})
	}
	if r.Chance(3) {
		in.D = vhlib.Pick(r, []int{0, 5})
	}
	var n int
	sz := r.Intn(100)
	bigPct, midPct := 4, 14
	if o.Search || o.Tier == "thorough" {
		bigPct, midPct = 8, 25
	}
	switch {
	case sz < bigPct:
		n = 100 + r.Intn(201)
		in.Shuffles = 12
	case sz < bigPct+midPct:
		n = 7 + r.Intn(40)
		in.Shuffles = 40
	default:
		n = 2 + r.Intn(5)
	}
	spread := 2 + r.Intn(6) // small spread = many ties
	if n > 40 {
		spread = 8
	}
	rows := make([]rowIn, 0, n)
	for len(rows) < n {
		rows = append(rows, genRow(r, spread))
		if spread < 8 && r.Chance(20) {
			spread++
		}
	}
	rows = normalise(r, rows, n <= 46)
	if len(rows) > 0 && r.Chance(25) { // a row that differs from another one in the host id only
		b := rows[r.Intn(len(rows))]
		b.HostID = vhlib.Pick(r, hostids)
		rows = normalise(r, append(rows, b), false)
	}
	if len(rows) > 0 && n <= 46 && r.Chance(25) { // a true duplicate
		rows = append(rows, rows[r.Intn(len(rows))])
	}
	if in.Shuffles == 0 && len(rows) > 6 { // every permutation is tried for at most 6 rows
		rows = rows[len(rows)-6:]
	}
	if len(rows) > 1 { // the additions are not always last
		i := r.Intn(len(rows))
		rows[i], rows[len(rows)-1] = rows[len(rows)-1], rows[i]
	}
	n = len(rows)
	in.Rows = rows
	in.ShSeed = r.U64()
	in.Limit = vhlib.Pick(r, []uint64{0, 1, 2, 3, uint64(n - 1), uint64(n), uint64(n + 1), 25, 1000, ^uint64(0)})
	if r.Chance(30) {
		in.Path = "fin"
		in.Bound = vhlib.Pick(r, []uint64{in.Limit, in.Limit, 100, 2})
	}
	return in
}

func mkAddr(s string) netip.Addr {
	if s == "" {
		return netip.Addr{}
	}
	return netip.MustParseAddr(s)
}

func mkRow(ri rowIn) results.Row {
	var row results.Row
	row.Labels.Timestamp = time.Unix(ri.Sec, 0).In(locs[ri.Zone])
	row.Labels.Iface, row.Labels.Hostname, row.Labels.HostID = ri.Iface, ri.Host, ri.HostID
	row.Attributes.SrcIP, row.Attributes.DstIP = mkAddr(ri.Sip), mkAddr(ri.Dip)
	row.Attributes.IPProto, row.Attributes.DstPort = ri.Proto, ri.Dport
	row.Counters = types.Counters{BytesRcvd: ri.C[0], BytesSent: ri.C[1], PacketsRcvd: ri.C[2], PacketsSent: ri.C[3]}
	return row
}

// Coq converts decimal literals in quadratic time: anything large is printed in hexadecimal
func coqNum(v *big.Int) string {
	if v.IsInt64() && v.Int64() >= 0 && v.Int64() < 65536 {
		return v.String()
	}
	if v.Sign() < 0 {
		return "(-0x" + new(big.Int).Neg(v).Text(16) + ")"
	}
	return "0x" + v.Text(16)
}

func coqAddr(a netip.Addr) string {
	switch {
	case !a.IsValid():
		return "ANone"
	case a.Is4():
		b := a.As4()
		return "(A4 " + coqNum(new(big.Int).SetBytes(b[:])) + ")"
	default:
		b := a.As16()
		return "(A6 " + coqNum(new(big.Int).SetBytes(b[:])) + " " + coqStr(a.Zone()) + ")"
	}
}

// zone id of a timestamp: index of its *time.Location in locs, 100 for time.Local (what time.Unix yields)
func zoneID(t time.Time) int {
	l := t.Location()
	for i, x := range locs {
		if l == x {
			return i
		}
	}
	if l == time.Local {
		return 100
	}
	return 999
}

func coqRow(row results.Row) string {
	inst := new(big.Int).Mul(big.NewInt(row.Labels.Timestamp.Unix()), big.NewInt(1000000000))
	inst.Add(inst, big.NewInt(int64(row.Labels.Timestamp.Nanosecond())))
	is := coqNum(inst) + "%Z"
	u := func(v uint64) string { return coqNum(new(big.Int).SetUint64(v)) }
	return fmt.Sprintf("R %s %d%%Z %s %s %s %s %s %d %d %s %s %s %s", is, zoneID(row.Labels.Timestamp),
		coqStr(row.Labels.Hostname), coqStr(row.Labels.HostID), coqStr(row.Labels.Iface),
		coqAddr(row.Attributes.SrcIP), coqAddr(row.Attributes.DstIP), row.Attributes.IPProto, row.Attributes.DstPort,
		u(row.Counters.BytesRcvd), u(row.Counters.BytesSent), u(row.Counters.PacketsRcvd), u(row.Counters.PacketsSent))
}

// all permutations of 0..n-1 in lexicographic order
func permutations(n int) [][]int {
	p := make([]int, n)
	for i := range p {
		p[i] = i
	}
	var out [][]int
	for {
		out = append(out, append([]int(nil), p...))
		i := n - 2
		for i >= 0 && p[i] >= p[i+1] {
			i--
		}
		if i < 0 {
			return out
		}
		j := n - 1
		for p[j] <= p[i] {
			j--
		}
		p[i], p[j] = p[j], p[i]
		for a, b := i+1, n-1; a < b; a, b = a+1, b-1 {
			p[a], p[b] = p[b], p[a]
		}
	}
}

func shuffles(n, k int, seed uint64) [][]int {
	r := vhlib.NewRand(seed)
	id := make([]int, n)
	rev := make([]int, n)
	for i := range id {
		id[i], rev[i] = i, n-1-i
	}
	out := [][]int{id, rev}
	for s := 0; s < k; s++ {
		p := append([]int(nil), id...)
		for i := n - 1; i > 0; i-- {
			j := r.Intn(i + 1)
			p[i], p[j] = p[j], p[i]
		}
		out = append(out, p)
	}
	return out
}

// indices of the output rows in the base list; identical rows take their indices in order of appearance
func indices(base, out []results.Row, ex *extraRows) []int {
	pos := map[results.Row][]int{}
	for i, r := range base {
		pos[r] = append(pos[r], i)
	}
	used := map[results.Row]bool{}
	idx := make([]int, len(out))
	for i, r := range out {
		p := pos[r]
		if len(p) == 0 {
			if _, isBase := pos[r]; isBase || used[r] || ex == nil {
				idx[i] = 1000000 + i // more copies of a row than the input holds
				continue
			}
			used[r] = true
			idx[i] = len(base) + ex.index(r) // a row that is not an input row (re-binned)
			continue
		}
		idx[i] = p[0]
		pos[r] = p[1:]
	}
	return idx
}

// rows that appear in outputs without being input rows, in order of first appearance
type extraRows struct {
	rows []results.Row
	at   map[results.Row]int
}

func (e *extraRows) index(r results.Row) int {
	if e.at == nil {
		e.at = map[results.Row]int{}
	}
	if i, ok := e.at[r]; ok {
		return i
	}
	e.at[r] = len(e.rows)
	e.rows = append(e.rows, r)
	return e.at[r]
}

// strings are printed without the %string delimiter (string_scope is opened by the case prelude):
// the delimiter makes Coq elaborate the case list ten times slower
func coqStr(s string) string {
	if !vhlib.IsPlain(s) {
		panic("non-printable string in a generated case")
	}
	return "\"" + strings.ReplaceAll(s, "\"", "\"\"") + "\""
}

func u64(v uint64) string { return coqNum(new(big.Int).SetUint64(v)) }

func idxList(idx []int) string {
	xs := make([]string, len(idx))
	for i, v := range idx {
		xs[i] = strconv.Itoa(v)
	}
	return "[" + strings.Join(xs, "; ") + "]"
}
func idxString(idx []int) string { return "Ok " + idxList(idx) }

type distinct struct {
	order []string
	seen  map[string]int
}

func (d *distinct) add(s string) {
	if d.seen == nil {
		d.seen = map[string]int{}
	}
	if _, ok := d.seen[s]; !ok {
		d.order = append(d.order, s)
	}
	d.seen[s]++
}

func run(raw json.RawMessage, o vhlib.Opts) (*vhlib.Case, error) {
	var in input
	if err := json.Unmarshal(raw, &in); err != nil {
		return nil, err
	}
	if in.Path != "pp" && in.Path != "fin" {
		return nil, fmt.Errorf("unknown path %q", in.Path)
	}
	rowsIn := in.Rows
	base := make([]results.Row, 0, len(rowsIn))
	var kept []rowIn
	seenRow := map[results.MergeableAttributes]bool{}
	for _, ri := range rowsIn {
		if ri.Zone < 0 || ri.Zone >= len(locs) {
			return nil, fmt.Errorf("zone %d out of range", ri.Zone)
		}
		row := mkRow(ri)
		if in.Path == "fin" { // a RowsMap holds one row per (labels, attributes)
			k := results.MergeableAttributes{Labels: row.Labels, Attributes: row.Attributes}
			if seenRow[k] {
				continue
			}
			seenRow[k] = true
		}
		base = append(base, row)
		kept = append(kept, ri)
	}
	n := len(base)
	var perms [][]int
	if in.Shuffles == 0 && n <= 6 {
		perms = permutations(n)
	} else {
		perms = shuffles(n, max(in.Shuffles, 1), in.ShSeed)
	}

	ctx := context.Background()
	var full, lim distinct
	var extra extraRows
	for _, p := range perms {
		cp := make([]results.Row, n)
		for i, j := range p {
			cp[i] = base[j]
		}
		var sorted []results.Row
		panicked, _ := vhlib.Recover(func() {
			results.By(results.SortOrder(in.K), types.Direction(in.D), in.Asc).Sort(cp)
			sorted = cp
		})
		if panicked {
			full.add("Panic")
		} else {
			full.add(idxString(indices(base, sorted, nil)))
		}
		stmt := &query.Statement{SortBy: results.SortOrder(in.K), Direction: types.Direction(in.D), SortAscending: in.Asc, NumResults: in.Limit,
			TimeBinSize: time.Duration(in.BinSec) * time.Second}
		stmt.LabelSelector.Timestamp = in.TimeLabel
		displayed := 0
		var limited []results.Row
		panicked2, _ := vhlib.Recover(func() {
			res := results.New()
			if in.Path == "pp" {
				if panicked {
					panic("sort panicked")
				}
				res.Rows = append(results.Rows(nil), sorted...)
				if err := stmt.PostProcess(ctx, res); err != nil {
					panic(err)
				}
			} else {
				rm := results.RowsMap{}
				for _, j := range p {
					rm[results.MergeableAttributes{Labels: base[j].Labels, Attributes: base[j].Attributes}] = base[j].Counters
				}
				gqdist.VerifC14FinalizeResult(ctx, res, stmt, rm, in.Bound)
			}
			limited = res.Rows
			displayed = res.Summary.Hits.Displayed
		})
		if panicked2 {
			lim.add("Panic")
		} else {
			lim.add("Ok (" + idxList(indices(base, limited, &extra)) + ", " + strconv.Itoa(displayed) + ")")
		}
	}

	// distribution tags
	binTag := "time-label=off"
	if in.TimeLabel {
		binTag = "time-label,bin=" + strconv.FormatInt(in.BinSec, 10) + "s"
	}
	tags := []string{binTag, "path=" + in.Path, "sort=" + strconv.Itoa(in.K), "dir=" + strconv.Itoa(in.D)}
	switch {
	case n <= 6:
		tags = append(tags, "all-permutations")
	case n <= 46:
		tags = append(tags, "shuffled-medium")
	default:
		tags = append(tags, "shuffled-large")
	}
	var zoneTie, hostidTie, v4, v6, dup, wrapSum bool
	keys := map[string]bool{}
	for i, a := range kept {
		if keys[keyOf(a)] {
			dup = true
		}
		keys[keyOf(a)] = true
		if a.Sip != "" && mkAddr(a.Sip).Is4() {
			v4 = true
		} else if a.Sip != "" {
			v6 = true
		}
		if a.C[0]+a.C[1] < a.C[0] || a.C[2]+a.C[3] < a.C[2] {
			wrapSum = true
		}
		for _, b := range kept[:i] {
			if a.Sec == b.Sec && a.Zone != b.Zone {
				zoneTie = true
			}
			bb := b
			bb.HostID, bb.C, bb.Zone = a.HostID, a.C, a.Zone
			if bb == a && a.HostID != b.HostID {
				hostidTie = true
			}
		}
	}
	for name, v := range map[string]bool{"same-instant-two-zones": zoneTie, "differ-only-in-host-id": hostidTie, "v4-v6-mix": v4 && v6,
		"duplicates": dup, "wrapping-sum": wrapSum} {
		if v {
			tags = append(tags, name)
		}
	}
	tags = vhlib.SortedCopy(tags)

	rowTerms := make([]string, n)
	for i := range base {
		rowTerms[i] = coqRow(base[i])
	}
	trim := func(d distinct) []string { // at most 3 distinct outputs go into the Coq term (2 already refute)
		if len(d.order) > 3 {
			return d.order[:3]
		}
		return d.order
	}
	c := &vhlib.Case{Tags: tags}
	c.Observed = map[string]any{"input_orders_tried": len(perms), "distinct_sorted_outputs": len(full.order), "distinct_limited_outputs": len(lim.order),
		"sorted": trim(full), "limited": trim(lim)}
	bound := "None"
	if in.Path == "fin" {
		bound = "(Some " + u64(in.Bound) + ")"
	}
	wrapRes := func(xs []string) string {
		ys := make([]string, len(xs))
		for i, x := range xs {
			ys[i] = "(" + x + ")"
			if x == "Panic" {
				ys[i] = "Panic"
			}
		}
		return vhlib.CoqList(ys)
	}
	tb := "None"
	if in.TimeLabel {
		tb = "(Some " + coqNum(new(big.Int).Mul(big.NewInt(in.BinSec), big.NewInt(1000000000))) + "%Z)"
	}
	extraTerms := make([]string, len(extra.rows))
	for i, r := range extra.rows {
		extraTerms[i] = coqRow(r)
	}
	c.Coq = fmt.Sprintf("Case %s %s %s %s %s %s %s %s %s %s", vhlib.CoqZ(int64(in.K)), vhlib.CoqZ(int64(in.D)), vhlib.CoqBool(in.Asc), tb, u64(in.Limit), bound,
		vhlib.CoqList(rowTerms), vhlib.CoqList(extraTerms), wrapRes(trim(full)), wrapRes(trim(lim)))
	validOrder := in.K == 3 || ((in.K == 1 || in.K == 2) && in.D >= 1 && in.D <= 4)
	c.Nontrivial = validOrder && n >= 2 && len(perms) >= 2
	return c, nil
}

func main() { vhlib.Main(gen, run) }
